#!/venv/bin/python
"""Rewrites the commit hashes of fixed findings in known_findings.json from /repo's log (matched by subject)."""
import json, os, re, subprocess
VERIF = os.path.dirname(os.path.dirname(os.path.abspath(__file__)))
SUBJECTS = {
    "F01": "build synthetic h2 RequestReceived",
    "F02": "send HTTP/2 trailers with END_STREAM",
    "F03": "ignore HTTP/2 DATA for streams",
    "F04": "log a request once",
    "F05": "release HTTP/2 sends waiting",
    "F08": "let the response in progress finish",
    "F09": "release the reader parked on pipelined",
    "F11": "stop the idle timer once the peer",
    "F15": "deliver nothing after an over-limit WebSocket",
    "F16": "initialise HTTPStream.app_put",
    "F17": "treat a send that collides with the connection being closed",
    "F18": "wait for connections to drain before waiting for the listeners",
    "F19": "reset HTTP/2 streams whose application fails",
    "F20": "reject an unoffered WebSocket subprotocol",
    "F23": "release HTTP/2 senders when the send task stops",
    "F24": "survive a priority tree that schedules a stream",
    "F25": "keep HTTP/2 senders waiting until the stream buffer",
    "F27": "reject CR, LF and NUL in application-supplied header bytes",
    "F28": "refuse http.response.push once the response is complete",
    "F29": "refuse a second websocket.close",
    "F30": "validate the extra headers of websocket.accept",
    "F31": "do not restart the idle timer on a task group that is shutting down",
    "F32": "close the WebSocket stream before answering 400 to data sent ahead",
    "F33": "end an HTTP/2 stream in the same step that writes its last data",
    "F22": "report the client's close code",
    "F38": "enforce h2_max_header_list_size",
    "F39": "answer 400 on its own stream to an HTTP/2 request without a usable path",
    "F40": "treat a WebSocket handshake with non-ASCII header bytes as invalid",
    "F41": "a lifespan failure followed by another application error",
    "F42": "WSGI applications may call start_response lazily",
    "F43": "do not call the WSGI application for a request the client abandoned",
    "F12": "do not re-arm the keep-alive timer once the peer has stopped sending",
    "F26": "a WebSocket denial response start is validated at once",
    "F13": "trio closes a connection only after the writes in progress have gone out",
    "F44": "the asyncio worker always passes the peer's EOF on to the protocol",
    "F45": "deliver no WebSocket message after websocket.disconnect",
    "F06b": "the disconnect message never waits for room",
    "F06c": "the disconnect message never waits for room",
    "F06e": "the disconnect message never waits for room",
    "F07": "the disconnect message never waits for room",
    "F46": "end the connection on a malformed HTTP2-Settings header",
    "F10": "close a stream that answered by itself",
    "F48": "release a reader parked on a pipelined request when the connection is closed",
    "F49": "a prior-knowledge HTTP/2 connection is idle until it opens a stream",
    "F21": "replies made by the HTTP/2 reader do not wait for room",
    "F34": "a failed lifespan startup is only reported once",
    "F35": "a lifespan failure the application swallowed",
    "F36": "worker_serve returns when the lifespan app is still waiting",
    "F37": "trio lifespan tolerates an application that has already returned",
}
log = subprocess.run(["git", "-C", "/repo", "log", "--format=%h %s"], capture_output=True, text=True).stdout.splitlines()
path = os.path.join(VERIF, "known_findings.json")
d = json.load(open(path))
for f in d["findings"]:
    if f.get("status") != "fixed":
        continue
    key = f["id"].split("-")[0]
    subj = SUBJECTS.get(key)
    if not subj:
        continue
    hit = [l.split()[0] for l in log if subj in l]
    if hit:
        old = f.get("commit")
        f["commit"] = hit[0]
        f["what"] = re.sub(r"(fixed: property=C\d+ )(\S+ )?", lambda m: m.group(1) + hit[0] + " ", f["what"], count=1) if old is None or True else f["what"]
json.dump(d, open(path, "w"), indent=1)
print("synced")
