#!/venv/bin/python
"""Applies each seeded change under /verif/seeded/<name>/patch.diff to /repo, runs the quick check of the
property it breaks (evidence and replays go to a scratch directory) and reverts /repo.
usage: tools/run_seeded.py [name ...] [--checks C01,C02]"""
import json, os, shutil, subprocess, sys, tempfile, time

VERIF = os.path.dirname(os.path.dirname(os.path.abspath(__file__)))


def sh(cmd, **kw):
    return subprocess.run(cmd, capture_output=True, text=True, **kw)


def main() -> int:
    args = [a for a in sys.argv[1:] if not a.startswith("--")]
    extra = None
    for a in sys.argv[1:]:
        if a.startswith("--checks="):
            extra = a.split("=", 1)[1].split(",")
    names = args or sorted(os.listdir(os.path.join(VERIF, "seeded")))
    if sh(["git", "-C", "/repo", "status", "--porcelain", "--", "src"]).stdout.strip():
        print("refusing: /repo/src has uncommitted changes")
        return 2
    scratch = tempfile.mkdtemp(prefix="hcseed-")
    rc = 0
    try:
        for name in names:
            d = os.path.join(VERIF, "seeded", name)
            patch = os.path.join(d, "patch.diff")
            if not os.path.exists(patch):
                continue
            meta_path = os.path.join(d, "meta.json")
            meta = json.load(open(meta_path)) if os.path.exists(meta_path) else {}
            prop = meta.get("property") or ("C" + name[1:3])
            checks = extra or meta.get("detected_by_checks") or [prop]
            ap = sh(["git", "-C", "/repo", "apply", "--3way", patch])
            if ap.returncode != 0:
                ap = sh(["git", "-C", "/repo", "apply", patch])
            if ap.returncode != 0:
                print(f"{name}: patch does not apply: {ap.stderr.strip()[:200]}")
                sh(["git", "-C", "/repo", "reset", "-q", "--hard", "HEAD"])
                rc = 1
                continue
            try:
                results = {}
                for chk in checks:
                    env = dict(os.environ, HCSIM_OUT=os.path.join(scratch, name))
                    t0 = time.time()
                    p = sh([os.path.join(VERIF, "check"), chk, "quick"], env=env, timeout=3600)
                    caught = p.returncode == 1 and f"VIOLATION property={chk}" in p.stdout
                    rules = sorted({l.split("rule=")[1].split(" ")[0] for l in p.stdout.splitlines() if "rule=" in l})
                    results[chk] = {"caught": caught, "exit": p.returncode, "rules": rules, "wall_s": round(time.time() - t0, 1)}
                    print(f"{name:8s} {chk} {'CAUGHT' if caught else 'missed (exit %d)' % p.returncode} {rules} {time.time()-t0:.0f}s", flush=True)
                meta["check_results"] = results
                meta["property"] = prop
                json.dump(meta, open(meta_path, "w"), indent=1)
            finally:
                sh(["git", "-C", "/repo", "reset", "-q", "--hard", "HEAD"])
    finally:
        shutil.rmtree(scratch, ignore_errors=True)
        left = sh(["git", "-C", "/repo", "status", "--porcelain"]).stdout.strip()
        if left:
            print("WARNING /repo not clean:", left)
    return rc


if __name__ == "__main__":
    sys.exit(main())
