#!/venv/bin/python
"""Fills summary / needs / origin fields of seeded/<name>/meta.json from notes.md and rewrites the detection table
between the SEEDED-TABLE markers of DESIGN.md from the recorded check results."""
import json, os, re
VERIF = os.path.dirname(os.path.dirname(os.path.abspath(__file__)))
base = os.path.join(VERIF, "seeded")
EXTRA = {"c02c": ["C02", "C08", "C09"], "c09a": ["C09", "C10"], "c10b": ["C10", "C09"], "c07b": ["C07", "C15"],
         "c08b": ["C08", "C09"], "c16c": ["C16", "C03"], "c08c": ["C08", "C09"]}
rows = []
for n in sorted(os.listdir(base)):
    d = os.path.join(base, n)
    mp = os.path.join(d, "meta.json")
    m = json.load(open(mp)) if os.path.exists(mp) else {}
    m["property"] = "C" + n[1:3]
    notes = open(os.path.join(d, "notes.md")).read() if os.path.exists(os.path.join(d, "notes.md")) else ""
    lines = [l.strip() for l in notes.splitlines() if l.strip()]
    m["summary"] = lines[0].lstrip("# ").strip() if lines else ""
    need = [l for l in lines[1:] if re.search(r"need|only shows|manifest|trigger|only when", l, re.I)]
    m["needs"] = need[0].lstrip("-* ").strip()[:700] if need else ""
    m["files"] = {"patch": "patch.diff", "demo": "demo.py", "notes": "notes.md"}
    m.setdefault("origin", "written by a fresh sub-agent that saw only the property text and its own scratch worktree")
    if n in EXTRA:
        m["detected_by_checks"] = EXTRA[n]
    json.dump(m, open(mp, "w"), indent=1)
    cr = m.get("check_results", {})
    res = "; ".join(f"{k}: " + ("caught (" + ", ".join(v["rules"]) + ")" if v["caught"] else "**missed**") for k, v in sorted(cr.items()))
    summ = re.sub(r"^%s\s*[-–]\s*" % n, "", m["summary"])
    summ = re.sub(r"\s*\(src/[^)]*\)", "", summ)
    rows.append(f"| {n} | {summ[:120]} | {res} |")
p = os.path.join(VERIF, "DESIGN.md")
s = open(p).read()
a, b = "<!-- SEEDED-TABLE-BEGIN -->", "<!-- SEEDED-TABLE-END -->"
if a in s and b in s:
    table = "| change | what it does | detected by (quick tier, rules that fired) |\n|---|---|---|\n" + "\n".join(rows)
    s = s[: s.index(a) + len(a)] + "\n" + table + "\n" + s[s.index(b):]
    open(p, "w").write(s)
print(len(rows), "seeded changes")
