#!/venv/bin/python
"""Parallel variant of run_seeded.py that never touches /repo: for each /verif/seeded/<name> the committed src tree
(`git archive HEAD src`) is unpacked under /tmp, patch.diff applied there, and the quick check(s) pointed at it with
HYPERCORN_SRC (evidence and replays go to a scratch HCSIM_OUT).  Results go to meta.json exactly as run_seeded.py.
usage: tools/run_seeded_par.py [-jN] [name ...] [--checks=C01,C02] [--tier=quick]"""
import json, os, shutil, subprocess, sys, tempfile, time
from concurrent.futures import ThreadPoolExecutor

VERIF = os.path.dirname(os.path.dirname(os.path.abspath(__file__)))


def sh(cmd, **kw):
    return subprocess.run(cmd, capture_output=True, text=True, **kw)


def one(name, extra, tier, scratch):
    d = os.path.join(VERIF, "seeded", name)
    patch = os.path.join(d, "patch.diff")
    meta_path = os.path.join(d, "meta.json")
    meta = json.load(open(meta_path)) if os.path.exists(meta_path) else {}
    prop = meta.get("property") or ("C" + name[1:3])
    checks = extra or meta.get("detected_by_checks") or [prop]
    root = os.path.join(scratch, "src-" + name)
    os.makedirs(root)
    subprocess.run(f"git -C /repo archive HEAD src | tar -x -C {root}", shell=True, check=True)
    ap = sh(["git", "apply", "--directory", root.lstrip("/"), "--unsafe-paths", patch], cwd="/")
    if ap.returncode != 0:
        ap = sh(["patch", "-p1", "-d", root, "-i", patch])
    if ap.returncode != 0:
        return name, None, f"patch does not apply: {(ap.stderr or ap.stdout).strip()[:200]}"
    results = {}
    for chk in checks:
        env = dict(os.environ, HYPERCORN_SRC=os.path.join(root, "src"), HCSIM_OUT=os.path.join(scratch, "out-" + name))
        t0 = time.time()
        p = sh([os.path.join(VERIF, "check"), chk, tier], env=env, timeout=3600)
        caught = p.returncode == 1 and f"VIOLATION property={chk}" in p.stdout
        rules = sorted({l.split("rule=")[1].split(" ")[0] for l in p.stdout.splitlines() if "rule=" in l})
        results[chk] = {"caught": caught, "exit": p.returncode, "rules": rules, "wall_s": round(time.time() - t0, 1)}
        print(f"{name:8s} {chk} {'CAUGHT' if caught else 'missed (exit %d)' % p.returncode} {rules} {time.time()-t0:.0f}s",
              flush=True)
        if p.returncode not in (0, 1):
            print(p.stdout[-600:], p.stderr[-600:])
    meta["check_results"] = {**meta.get("check_results", {}), **results} if extra else results
    meta["property"] = prop
    json.dump(meta, open(meta_path, "w"), indent=1)
    shutil.rmtree(root, ignore_errors=True)
    return name, results, None


def main() -> int:
    args = [a for a in sys.argv[1:] if not a.startswith("-")]
    extra, tier, jobs = None, "quick", 3
    for a in sys.argv[1:]:
        if a.startswith("--checks="):
            extra = a.split("=", 1)[1].split(",")
        if a.startswith("--tier="):
            tier = a.split("=", 1)[1]
        if a.startswith("-j"):
            jobs = int(a[2:])
    names = args or sorted(os.listdir(os.path.join(VERIF, "seeded")))
    scratch = tempfile.mkdtemp(prefix="hcseedp-")
    rc = 0
    try:
        with ThreadPoolExecutor(max_workers=jobs) as ex:
            for name, res, err in ex.map(lambda n: one(n, extra, tier, scratch), names):
                if err:
                    print(name, err)
                    rc = 1
    finally:
        shutil.rmtree(scratch, ignore_errors=True)
    return rc


if __name__ == "__main__":
    sys.exit(main())
