#!/venv/bin/python
"""Confirms seeded changes independently of the agents that wrote them: for each /verif/seeded/<name> a scratch
worktree of /repo HEAD is made under /tmp, the patch applied, the pinned test-suite run (must match the baseline:
193 passed, the two test_http2_websocket failures), demo.py run with the patch (must fail) and without (must pass).
The result is stored in meta.json under "confirmed".  The worktree is removed afterwards.
usage: tools/confirm_seeded.py [name ...]"""
import json, os, re, subprocess, sys
from concurrent.futures import ThreadPoolExecutor

VERIF = os.path.dirname(os.path.dirname(os.path.abspath(__file__)))


def sh(cmd, **kw):
    return subprocess.run(cmd, capture_output=True, text=True, **kw)


def confirm(name: str) -> dict:
    d = os.path.join(VERIF, "seeded", name)
    wt = f"/tmp/cf-{name}"
    sh(["git", "-C", "/repo", "worktree", "remove", "--force", wt])
    r = sh(["git", "-C", "/repo", "worktree", "add", "--detach", wt, "HEAD"])
    res: dict = {"name": name}
    try:
        env = dict(os.environ, PYTHONPATH=f"{wt}/src", PYTHONDONTWRITEBYTECODE="1")
        demo = os.path.join(d, "demo.py")
        p0 = sh(["timeout", "120", "/venv/bin/python", demo], env=env, cwd=wt)
        res["demo_without"] = p0.returncode
        ap = sh(["git", "-C", wt, "apply", os.path.join(d, "patch.diff")])
        if ap.returncode != 0:
            ap = sh(["git", "-C", wt, "apply", "--3way", os.path.join(d, "patch.diff")])
        res["applies"] = ap.returncode == 0
        if not res["applies"]:
            res["error"] = ap.stderr[-300:]
            return res
        p1 = sh(["timeout", "120", "/venv/bin/python", demo], env=env, cwd=wt)
        res["demo_with"] = p1.returncode
        t = sh(["timeout", "900", "/venv/bin/python", "-m", "pytest", "-q", "-p", "no:cacheprovider", "--timeout=900",
                "tests"], env=env, cwd=wt)
        tail = t.stdout.strip().splitlines()[-1] if t.stdout.strip() else ""
        res["suite"] = tail
        failed = sorted(set(re.findall(r"FAILED (\S+)", t.stdout)))
        res["suite_failed"] = failed
        res["suite_baseline"] = ("193 passed" in tail and all("test_http2_websocket" in f for f in failed)
                                 and len(failed) == 2)
        res["ok"] = bool(res["suite_baseline"] and res["demo_without"] == 0 and res["demo_with"] not in (0, None))
    finally:
        sh(["git", "-C", "/repo", "worktree", "remove", "--force", wt])
    return res


def main() -> int:
    names = sys.argv[1:] or sorted(os.listdir(os.path.join(VERIF, "seeded")))
    rc = 0
    with ThreadPoolExecutor(max_workers=6) as ex:
        for res in ex.map(confirm, names):
            name = res.pop("name")
            meta_path = os.path.join(VERIF, "seeded", name, "meta.json")
            meta = json.load(open(meta_path)) if os.path.exists(meta_path) else {}
            meta["confirmed"] = res
            json.dump(meta, open(meta_path, "w"), indent=1)
            print(name, "OK" if res.get("ok") else "NOT CONFIRMED", res, flush=True)
            if not res.get("ok"):
                rc = 1
    sh(["git", "-C", "/repo", "worktree", "prune"])
    return rc


if __name__ == "__main__":
    sys.exit(main())
