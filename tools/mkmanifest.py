#!/venv/bin/python
"""Regenerates /verif/MANIFEST.json from the table below (run after adding a check)."""
import json, os, sys

VERIF = os.path.dirname(os.path.dirname(os.path.abspath(__file__)))
sys.path.insert(0, VERIF)

CLAIMED = {
    # id: (design section, level text, level note)
    "C01": ("5/C01", "Seeded search over request grammar x segmentation x timing on both workers with an independent "
            "reconstruction oracle; every 2-way split of five short requests is enumerated completely. A clean batch is "
            "evidence, not proof.",
            "h11/h2 parsing trusted; requests restricted to a conservative well-formed grammar; fake kernel models TCP as the runtimes see it"),
    "C02": ("5/C02", "Seeded search over response programs (status, headers, chunkings, trailers, early hints) x client pace "
            "(stalls, tiny/zero HTTP/2 windows with dribbled credit, connection-only credit, short socket buffers, short writes) on both workers; an own "
            "client-side parser is compared with what the application sent, and a send still waiting at the end although the client accepts data is a violation. Evidence, not proof.",
            "own HTTP/1 parser and hyperframe/hpack based HTTP/2 peer are trusted; applications declare a correct content-length or none"),
    "C03": ("5/C03", "Seeded search over closing orders (client FIN/RST/close at any byte, failing writes, keep-alive expiry, "
            "Connection: close, shutdown trigger) x application shapes (early, late, continuing after disconnect) with an "
            "automaton over everything delivered to each instance, send outcomes and access-log counts; every fourth run is a "
            "WebSocket session over either carrier. One defect (what remains of F06, HTTP/2 only) is a known finding.",
            "instances already finished at closure, instances killed by the forced cancel at shutdown, and HTTP/1 instances whose reader is parked behind pipelined bytes are not owed a disconnect"),
    "C06": ("5/C06", "Seeded search over HTTP/1.x pipelines (1..5 requests, bodies, Connection headers, request maximum, "
            "malformed request at any position, every segmentation mode) x application read/answer orders, judged against a "
            "sequential model of a persistent connection using global event sequence numbers.",
            "clients never send bytes after a request that asked to close; a fully arrived but unread request body may count as complete or not"),
    "C07": ("5/C07", "Seeded search over session histories (fast/slow requests, server-generated 404s, partial heads, pipelined pairs, "
            "concurrent HTTP/2 streams) with pauses on a grid around each keep_alive_timeout value, peer loss at every phase and "
            "shutdown while idle; close instants are compared with the admissible window derived from observed idle/busy "
            "intervals, handler and socket lifetimes with a 0.1 s promptness bound; every third run adds an open WebSocket (with a finished sibling stream on HTTP/2) that must survive silence.",
            "applications return as soon as they see the disconnect; handler lifetimes are observed through a run-time wrapper around TCPServer.run"),
    "C10": ("5/C10", "Seeded search over WebSocket message sequences (types, sizes around the limit counted in characters/bytes, "
            "fragmentation inside code points, pings between fragments, permessage-deflate) x carrier (HTTP/1.1 upgrade, HTTP/2 "
            "extended CONNECT) x recv segmentation on both workers, with own frame builder/parser/inflater; the size-limit "
            "boundary {limit-1, limit, limit+1} is enumerated for both kinds, carriers and workers; on HTTP/2 the client may shrink and reopen SETTINGS_INITIAL_WINDOW_SIZE in mid-session. One dependency defect (F14 in wsproto) is a known finding.",
            "own RFC 6455/7692 client code trusted; only valid UTF-8 is sent"),
    "C11": ("5/C11", "Complete enumeration of a small handshake matrix (upgrade/connection/version/key/http-version x accept/close, both "
            "carriers and workers) plus seeded search over larger header combinations, application decisions (valid and invalid "
            "accepts, close, denial response, crash) and closing orders, judged against a decision table with an independently "
            "computed RFC 6455 accept token.",
            "requests that are not upgrade attempts at all (no Connection: upgrade token, other Upgrade value) are ordinary HTTP and not judged here; a non-GET request with a complete handshake is only judged for not being upgraded"),
    "C04": ("5/C04", "Seeded search over four input families on both workers, each with tape-drawn segmentation and delays: random bytes "
            "behind protocol-looking prefixes; bit/byte/delete/insert/splice/truncate mutations of valid HTTP/1 pipelines, HTTP/2 "
            "sessions and WebSocket sessions; legal but rare HTTP/2 items at tape-chosen points next to 1..3 ordinary sibling "
            "streams; plus complete enumeration of a catalogue of 16 malformed HTTP/1 requests and 26 HTTP/2 protocol violations and "
            "of every rare item x position.  Oracle: no exception leaves a handler or reaches the loop's exception handler, "
            "worker_serve survives, the connection is released, a fresh connection is served afterwards, catalogue entries get "
            "their 4xx+close / GOAWAY+close, siblings complete byte for byte.",
            "applications are well-behaved; for random and mutated input only the absence of internal errors, the release of the "
            "connection and the health of the server are judged; an empty :path and other inputs the h2 library classifies as "
            "connection errors are protocol violations, not 'merely unusual'"),
    "C05": ("5/C05", "Complete enumeration of base program x await point x failure kind {raise, ExceptionGroup, return, self-cancel} x "
            "context {HTTP/1.1 keep-alive, pipelined, HTTP/2 with siblings, WebSocket on both carriers} x worker, plus seeded variation "
            "of segmentation/latency/body around the same product; the client-side parsers decide 500 / visibly incomplete / reset.",
            "HTTP/1.0 and close-delimited responses cannot signal truncation and are not generated; a response whose declared length was fully sent before the failure may parse as complete"),
    "C09": ("5/C09", "Seeded search over 1..4 concurrent streams x initial windows {0,1,...} x schedules of WINDOW_UPDATE / SETTINGS window "
            "and frame-size changes / PRIORITY / RST_STREAM, with the peer's own window ledger checking every DATA frame, a quiescent "
            "snapshot for liveness (no stream with credit and data may be idle) and a final unlimited grant for completeness and order; "
            "spinning is detected by the simulated selector.",
            "SETTINGS bind the server from its ACK on (RFC 7540 6.5.3); applications produce all data at once"),
    "C08": ("5/C08", "Enumeration of release kind x waiting point x protocol x worker plus seeded variation of sizes, buffers and "
            "timing: multi-megabyte responses against a stalled reader / closed HTTP/2 window with a byte ledger sampled during the "
            "stall, liveness of a second connection and a sibling stream, and a 1 s bound on pending sends after the release event.",
            "512 KiB + one chunk is used as the fixed bound; WebSocket-over-HTTP/2 pressure is exercised by C10"),
    "C12": ("5/C12", "Complete enumeration of all send sequences up to length 4 (quick) / 5 (thorough) over the reduced ASGI alphabet for "
            "HTTP/1.1, HTTP/2 and WebSocket on both carriers and workers, judged against a reference automaton of the ASGI "
            "specification with a before/after byte ledger of the server socket for every rejected message; seeded runs add longer "
            "sequences, the extended alphabet, all bad-payload kinds and a client FIN/RST at a tape-chosen point. The enumeration "
            "decides; the simulator carries the live connection and the closure timing.",
            "a trailers-only response (http.response.trailers before any start on HTTP/2) is a deliberate hypercorn extension and is not judged; leading/trailing whitespace in header bytes is stripped rather than rejected"),
    "C13": ("5/C13", "Complete enumeration of every two-way split point of twelve openings (plain, pipelined, prior-knowledge preface, "
            "TLS-stub ALPN h2 / http/1.1 / none, five h2c upgrade variants, WebSocket upgrade) on both workers, each followed by "
            "traffic directly behind the opening bytes, plus seeded k-way / byte-wise splits; scope version/type, the protocol the "
            "client parser succeeds with and exactly-once answers are compared with the table for the opening.",
            "TLS record processing and ALPN negotiation are stubbed at selected_alpn_protocol(); WebSocket clients wait for the handshake response before sending frames (RFC 6455 4.1)"),
    "C14": ("5/C14", "Complete enumeration of lifespan startup script {complete fast/slow/overdue, failed plain/with awaiting cleanup/"
            "swallowed, raise before/after the startup message, hang, return early, unknown message} x shutdown script {complete "
            "fast/slow, failed, raise, hang, returned before, unknown message, crash while serving} x worker with a fixed client "
            "set, plus seeded search over timeouts, 1..5 HTTP/1.1 and HTTP/2 clients whose connection attempts fall before, "
            "during and after startup, around the trigger and inside/after the grace period, with requests that write and read "
            "per-connection state keys; ordering judged on global event sequence numbers, timeouts on exact virtual instants.",
            "the listening socket exists before worker_serve starts; an application that returns from the lifespan scope "
            "without answering is not judged for whether serving starts; only top-level state keys are compared (the copy is shallow by design)"),
    "C15": ("5/C15", "Enumeration of connection phase at the trigger {idle, partial head, short/long/stuck request, HTTP/2 idle/short/"
            "stuck stream, open WebSocket} x trigger source {callable, max_requests} x worker, plus seeded search over 1..6 such "
            "connections, graceful_timeout / shutdown_timeout values, lifespan shutdown programs (fast, slow, hanging) and late "
            "connection attempts / late HTTP/2 streams; judged against the ordering model of shutdown (stop accepting, drain, "
            "cancel at the grace bound, lifespan shutdown, return) with exact virtual instants.",
            "the listener is pre-opened by the harness; 'refused' for a late connection means never accepted by the application"),
    "C16": ("5/C16", "Differential execution: every tape builds one race-free scenario (HTTP/1 keep-alive and HTTP/2 sessions from the "
            "C01-C03 generators, the same with a client FIN/RST/close after a quiescent pause at a tape-chosen point, WebSocket "
            "sessions over both carriers with all closing orders, the C04 malformed catalogue and mutated HTTP/1 pipelines) and runs "
            "it on the asyncio and on the trio worker with the same simulated kernel and scripts but independent schedules; the "
            "two histories are reduced to a normal form (scope, merged message sequence and send outcomes per instance; statuses, "
            "headers without date, bodies, stream ends, GOAWAY and the virtual close instant per connection) and must be equal.",
            "scenarios are restricted to race-free ones (applications read the request before answering, large client windows and "
            "socket buffers, client acts after quiescent pauses); the comparison stops just before the harness's own final shutdown; "
            "which worker is right is not decided"),
    "C17": ("5/C17", "Complete enumeration of WSGI application shape (list, eager/lazy generator, iterators with close(), raising before / "
            "after start_response / in mid-iteration, empty chunks, empty iterable, no start_response) x protocol x worker, body size "
            "{limit-1, limit, limit+1} x framing, root_path x path, and WebSocket requests; plus seeded search over request "
            "sequences (methods, escaped / UTF-8 paths, root_path prefixes, repeated headers, bodies around the limit), thread/loop "
            "hand-over delays, client stalls and client loss while the iterable is consumed.  The WSGI application runs in real "
            "threads that hold a baton with the event loop, so the interleaving is the simulator's; environ is compared with an "
            "independent PEP 3333 construction, the response with what the application produced, close() is counted.",
            "threads are run one at a time (a thread slice is atomic with respect to the loop between two call-backs); write() "
            "callable and exc_info are not exercised; a path outside root_path is answered 404 by the adapter and only checked "
            "for not reaching the application"),
    "C18": ("5/C18", "Complete enumeration of every limit value x approach / hit / exceed x arrival shape x worker (h11_max_incomplete_size "
            "with heads in one read, two reads or dribbled, as first or second request; h2_max_concurrent_streams with 0/1/3 excess "
            "streams held open; h2_max_header_list_size with one field, many fields or CONTINUATION; keep_alive_max_requests "
            "sequential and pipelined on HTTP/1 and sequential on HTTP/2; max_requests x jitter x every jitter outcome through "
            "the patched randint, requests spread over connections) plus seeded variation of sizes, cuts and totals; judged "
            "against the limit table with exact counts and virtual instants.",
            "HTTP/2 clients open streams only after the server's SETTINGS; a head of exactly the limit and header blocks within 64 "
            "bytes of h2_max_header_list_size are not judged; a burst of streams already on the wire when the request maximum is "
            "reached cannot be told to stop in time and is not judged"),
}

NOT_APPLICABLE = {
    "C19": "pure functions of their input (config loaders, argparse wiring, bind parsing): no task, timer, peer, fault or "
           "interleaving for a simulator to control; socket creation touches the real OS, which the simulator must not (DESIGN 5/C19)",
    "C20": "middleware are functions of scope and header list; the only concurrent clause (dispatcher lifespan fan-out) is too "
           "small a part to claim the property on (DESIGN 5/C20)",
}

ALL = ["C%02d" % i for i in range(1, 21)]

def main():
    checks = []
    for pid in ALL:
        if pid not in CLAIMED:
            continue
        ref, text, note = CLAIMED[pid]
        checks.append({
            "property_id": pid,
            "quick_cmd": f"./check {pid} quick",
            "thorough_cmd": f"./check {pid} thorough",
            "evidence_file": f"/verif/evidence/{pid}.json",
            "replay_cmd_template": "./check replay {path}",
            "engine": "hcsim",
            "level_claimed": {"category": "exploration", "text": text, "design_ref": "DESIGN.md " + ref},
            "level_note": note,
            "technique": "deterministic simulation with fault injection: real hypercorn worker on a simulated kernel/clock, "
                         "seeded schedule+fault search, reference-model oracle, tape shrinking and exact replay",
        })
    na = []
    for pid in ALL:
        if pid in CLAIMED:
            continue
        na.append({"property_id": pid, "reason": NOT_APPLICABLE.get(pid, "check not built yet in this round (work in progress; see DESIGN.md section 9 build order)")})
    manifest = {
        "version": 1,
        "setup_cmd": "/venv/bin/python -c \"import h11, h2, hpack, hyperframe, priority, wsproto, trio; print('deps ok')\" && /venv/bin/python -m compileall -q /verif/hcsim >/dev/null && echo ok",
        "hooks": {
            "guard": "HYPERCORN_VERIF",
            "enable": "no source hooks are needed: the simulator replaces sockets, selector and clocks below asyncio/trio at run time (checks import hypercorn from /repo/src)",
            "baseline_off_cmd": "cd /repo && /venv/bin/python -m pytest -ra -q -p no:cacheprovider --timeout=900 --continue-on-collection-errors",
            "source_commits": [],
            "add_only": True,
        },
        "engines": [{
            "name": "hcsim",
            "path": "/verif/hcsim",
            "serves_properties": sorted(CLAIMED),
            "kind_free_text": "deterministic simulator: fake TCP kernel + virtual-time asyncio selector loop / trio MockClock, choice tape with shrinking, scripted peers and ASGI programs, reference-model oracles",
        }],
        "checks": checks,
        "not_applicable": na,
        "notes": "Exit codes: 0 held (KNOWN-FINDING lines possible), 1 VIOLATION with replay file, 2 HARNESS-ERROR. VERIF_SEED selects the seed family. See DESIGN.md.",
    }
    with open(os.path.join(VERIF, "MANIFEST.json"), "w") as f:
        json.dump(manifest, f, indent=1)
    print("wrote MANIFEST.json with", len(checks), "checks")

if __name__ == "__main__":
    main()
