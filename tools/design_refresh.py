#!/venv/bin/python
"""Regenerates the generated parts of DESIGN.md: the table of repaired findings (from known_findings.json and the
/repo log), the counts in the introduction, and (through tools/seed_meta.py) the seeded-change table."""
import json, os, re, subprocess
VERIF = os.path.dirname(os.path.dirname(os.path.abspath(__file__)))
d = json.load(open(os.path.join(VERIF, "known_findings.json")))
log = dict(l.split(" ", 1) for l in subprocess.run(["git", "-C", "/repo", "log", "--format=%h %s"], capture_output=True,
                                                   text=True).stdout.splitlines())
rows = []
ids = set()
open_ids = set()
for f in d["findings"]:
    base = re.match(r"F\d+", f["id"]).group(0)
    ids.add(base)
    if f["status"] != "fixed":
        open_ids.add(base)
        continue
    what = re.sub(r"^fixed: property=\S+ \S+ ", "", f["what"])
    label = re.match(r"F\d+[a-z]?", f["id"]).group(0)
    rows.append(f"| {label} | {f.get('property')} | {what} | `{log.get(f.get('commit', ''), '?')}` |")
p = os.path.join(VERIF, "DESIGN.md")
s = open(p).read()
hdr = "| id | property | what failed | commit subject |\n|---|---|---|---|\n"
i = s.index(hdr) + len(hdr)
j = s.index("\n\nTwo of the repairs needed a second look.")
s = s[:i] + "\n".join(rows) + s[j:]
total, nopen = len(ids), len(open_ids)
s = re.sub(r"\d+ genuine defects found of which \d+ are repaired by `fix:` commits in\n`/repo` and \d+ are recorded as open known findings",
           f"{total} genuine defects found of which {total - nopen} are repaired by `fix:` commits in\n`/repo` and {nopen} are recorded as open known findings", s)
s = re.sub(r"All \d+ were first reported", f"All {total} were first reported", s)
nseeds = len([n for n in os.listdir(os.path.join(VERIF, "seeded")) if os.path.isdir(os.path.join(VERIF, "seeded", n))])
s = re.sub(r"\d+ seeded changes written by independent\nsub-agents of which all are detected", f"{nseeds} seeded changes written by independent\nsub-agents of which all are detected", s)
open(p, "w").write(s)
print(f"{total} findings, {total - nopen} fixed, {nopen} open, {nseeds} seeded changes")
subprocess.run([os.path.join(VERIF, "tools", "seed_meta.py")])
