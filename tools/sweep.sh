#!/bin/sh
# usage: tools/sweep.sh <first-seed> <last-seed> [ids...]  - runs the quick checks over a range of VERIF_SEED values
first=$1; last=$2; shift 2
ids="$*"
[ -z "$ids" ] && ids=$(/venv/bin/python -c "import json;print(' '.join(c['property_id'] for c in json.load(open('MANIFEST.json'))['checks']))")
for seed in $(seq $first $last); do
  for id in $ids; do
    out=$(VERIF_SEED=$seed timeout 1800 ./check $id quick 2>&1)
    rc=$?
    echo "seed=$seed id=$id rc=$rc $(echo "$out" | grep 'quick:' | cut -c1-160)"
    if [ $rc -ne 0 ]; then echo "$out" | grep -v Warning | grep "rule=\|    - \|HARNESS" -A1 | cut -c1-400 | head -30; fi
  done
done
