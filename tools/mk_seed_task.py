#!/venv/bin/python
"""Creates a scratch worktree /tmp/wt-<ID> of /repo HEAD and writes TASK.md for a seeding sub-agent (property
text only, nothing from /verif).  usage: tools/mk_seed_task.py C14 "hint text" [nameA nameB]"""
import json, subprocess, sys

pid, hint = sys.argv[1], sys.argv[2]
lo = pid.lower()
names = sys.argv[3:5] if len(sys.argv) >= 5 else [lo + "a", lo + "b"]
props = {json.loads(l)["id"]: json.loads(l) for l in open("/verif/properties.jsonl")}
p = props[pid]
wt = f"/tmp/wt-{pid}"
subprocess.run(["git", "-C", "/repo", "worktree", "add", "--detach", wt, "HEAD"], check=True, capture_output=True)
task = f"""You are working in a scratch git worktree of the Python project pgjones/hypercorn (an ASGI/WSGI web server) at {wt} (source under {wt}/src/hypercorn, tests under {wt}/tests). Use the interpreter /venv/bin/python (it has h11, h2, wsproto, trio, pytest installed; there is NO network). To run code against THIS worktree rather than the installed copy, always set PYTHONPATH={wt}/src (e.g. `cd {wt} && PYTHONPATH={wt}/src /venv/bin/python -m pytest -q -p no:cacheprovider tests`). Do not touch /repo or /verif, and do not read anything under /verif. Do NOT use `git stash` (the stash is shared between worktrees); use only `git diff`, `git apply` and `git checkout -- src`.

Here is a semantic property that the server is supposed to satisfy:

{pid} - {p['title']}
STATEMENT: {p['statement']}
QUANTIFIED OVER: {p['quantifier']['text']}

YOUR TASK: produce TWO different, realistic source changes to hypercorn (each a small diff to files under src/hypercorn, like a plausible refactoring slip or "optimisation" a developer might make) that BREAK this property, while the project still imports and the existing test-suite still passes exactly as before (run the suite before and after: 193 tests pass and 2 tests named test_http2_websocket fail both before and after - that is the expected baseline). Prefer changes that need something specific to manifest - {hint}, a particular interleaving of tasks, or two cooperating sites that each look fine alone - NOT ones that any ordinary request would expose at once. The two changes should break different clauses of the property or sit in different files.

For EACH change deliver, under {wt}/seeded/<name>/ (name them {names[0]} and {names[1]}):
  1. patch.diff - the change as a unified diff produced with `git -C {wt} diff -- src` (apply one change at a time; after saving the diff, revert with `git -C {wt} checkout -- src` before making the next one).
  2. demo.py - a small self-contained program (plain asyncio or trio, driving hypercorn's real classes in-process, e.g. hypercorn.asyncio.tcp_server.TCPServer with in-memory reader/writer as tests/asyncio/helpers.py does, worker_serve on a loopback socket, or the protocol classes directly; no external network needed) that exits 0 on the unmodified source and exits non-zero (assertion failure) with the change applied. It must be run as `PYTHONPATH={wt}/src /venv/bin/python demo.py`.
  3. notes.md - 5-10 lines: which clause of the property breaks, exactly what is needed for it to manifest, and the commands you ran with their results (test-suite result with the change, demo result with and without the change).
Verify everything yourself before finishing (suite unchanged, demo fails with patch, demo passes without). Leave the worktree's src reverted to the original at the end. Report back the two names and a one-line description of each.
"""
open(f"{wt}/TASK.md", "w").write(task)
print(wt)
