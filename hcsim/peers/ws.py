"""Own WebSocket wire code for the simulated clients (RFC 6455 + permessage-deflate)."""
from __future__ import annotations

import base64
import hashlib
import struct
import zlib
from typing import Any, List, Optional, Tuple

GUID = b"258EAFA5-E914-47DA-95CA-C5AB0DC85B11"
OP_CONT, OP_TEXT, OP_BIN, OP_CLOSE, OP_PING, OP_PONG = 0, 1, 2, 8, 9, 10


def accept_token(key: bytes) -> bytes:
    return base64.b64encode(hashlib.sha1(key + GUID).digest())


def frame(opcode: int, payload: bytes, *, fin: bool = True, rsv1: bool = False,
          mask: Optional[bytes] = b"\x11\x22\x33\x44") -> bytes:
    b0 = (0x80 if fin else 0) | (0x40 if rsv1 else 0) | opcode
    n = len(payload)
    out = bytearray([b0])
    mbit = 0x80 if mask is not None else 0
    if n < 126:
        out.append(mbit | n)
    elif n < 65536:
        out.append(mbit | 126)
        out += struct.pack("!H", n)
    else:
        out.append(mbit | 127)
        out += struct.pack("!Q", n)
    if mask is not None:
        out += mask
        out += bytes(b ^ mask[i & 3] for i, b in enumerate(payload)) if n < 4096 else _mask_big(payload, mask)
    else:
        out += payload
    return bytes(out)


def _mask_big(payload: bytes, mask: bytes) -> bytes:
    n = len(payload)
    full = (mask * (n // 4 + 1))[:n]
    return (int.from_bytes(payload, "big") ^ int.from_bytes(full, "big")).to_bytes(n, "big")


def close_payload(code: Optional[int], reason: bytes = b"") -> bytes:
    if code is None:
        return b""
    return struct.pack("!H", code) + reason


class Deflater:
    """Client side permessage-deflate compressor (context takeover unless told otherwise)."""

    def __init__(self, no_context_takeover: bool = False) -> None:
        self.no_context_takeover = no_context_takeover
        self._c = zlib.compressobj(wbits=-15)

    def compress(self, data: bytes) -> bytes:
        if self.no_context_takeover:
            self._c = zlib.compressobj(wbits=-15)
        out = self._c.compress(data) + self._c.flush(zlib.Z_SYNC_FLUSH)
        assert out.endswith(b"\x00\x00\xff\xff")
        return out[:-4]


class Message:
    def __init__(self, opcode: int, payload: bytes, frames: int, compressed: bool) -> None:
        self.opcode = opcode
        self.payload = payload
        self.frames = frames
        self.compressed = compressed

    def as_tuple(self) -> tuple:
        if self.opcode == OP_TEXT:
            return ("text", self.payload.decode("utf-8", "replace"))
        return ("bytes", self.payload)


class WSParser:
    """Parses the server->client frame stream."""

    def __init__(self, deflate: bool = False, server_no_context_takeover: bool = False) -> None:
        self.buf = bytearray()
        self.deflate = deflate
        self.server_nct = server_no_context_takeover
        self._d = zlib.decompressobj(wbits=-15)
        self.messages: List[Message] = []
        self.pongs: List[bytes] = []
        self.pings: List[bytes] = []
        self.close: Optional[Tuple[Optional[int], bytes]] = None
        self.errors: List[str] = []
        self.after_close = 0
        self._frag_op: Optional[int] = None
        self._frag: bytearray = bytearray()
        self._frag_frames = 0
        self._frag_rsv1 = False
        self.frames = 0

    def feed(self, data: bytes) -> None:
        self.buf.extend(data)
        while True:
            if len(self.buf) < 2:
                return
            b0, b1 = self.buf[0], self.buf[1]
            n = b1 & 0x7F
            pos = 2
            if n == 126:
                if len(self.buf) < 4:
                    return
                n = struct.unpack("!H", self.buf[2:4])[0]
                pos = 4
            elif n == 127:
                if len(self.buf) < 10:
                    return
                n = struct.unpack("!Q", self.buf[2:10])[0]
                pos = 10
            masked = bool(b1 & 0x80)
            if masked:
                self.errors.append("server frame is masked")
                pos += 4
            if len(self.buf) < pos + n:
                return
            payload = bytes(self.buf[pos : pos + n])
            del self.buf[: pos + n]
            self._on_frame(bool(b0 & 0x80), bool(b0 & 0x40), b0 & 0x30, b0 & 0x0F, payload)

    def eof(self) -> None:
        if self.buf:
            self.errors.append(f"{len(self.buf)} bytes of an incomplete frame at EOF")

    def _on_frame(self, fin: bool, rsv1: bool, rsv23: int, opcode: int, payload: bytes) -> None:
        self.frames += 1
        if self.close is not None:
            self.after_close += 1
        if rsv23:
            self.errors.append("RSV2/3 set")
        if opcode >= 8:
            if not fin or len(payload) > 125:
                self.errors.append("bad control frame")
            if opcode == OP_CLOSE:
                if self.close is None:
                    code = struct.unpack("!H", payload[:2])[0] if len(payload) >= 2 else None
                    self.close = (code, payload[2:])
            elif opcode == OP_PING:
                self.pings.append(payload)
            elif opcode == OP_PONG:
                self.pongs.append(payload)
            else:
                self.errors.append(f"unknown control opcode {opcode}")
            return
        if opcode in (OP_TEXT, OP_BIN):
            if self._frag_op is not None:
                self.errors.append("new data frame inside a fragmented message")
            self._frag_op = opcode
            self._frag = bytearray(payload)
            self._frag_frames = 1
            self._frag_rsv1 = rsv1
            if rsv1 and not self.deflate:
                self.errors.append("RSV1 without negotiated permessage-deflate")
        elif opcode == OP_CONT:
            if self._frag_op is None:
                self.errors.append("continuation without a message")
                return
            if rsv1:
                self.errors.append("RSV1 on a continuation frame")
            self._frag.extend(payload)
            self._frag_frames += 1
        else:
            self.errors.append(f"unknown opcode {opcode}")
            return
        if fin:
            data = bytes(self._frag)
            if self._frag_rsv1:
                try:
                    if self.server_nct:
                        self._d = zlib.decompressobj(wbits=-15)
                    data = self._d.decompress(data + b"\x00\x00\xff\xff")
                except zlib.error as error:
                    self.errors.append(f"inflate failed: {error}")
            self.messages.append(Message(self._frag_op, data, self._frag_frames, self._frag_rsv1))
            self._frag_op = None


def handshake_request(path: bytes, key: bytes, *, host: bytes = b"example.test", version: bytes = b"13",
                      subprotocols: Optional[List[bytes]] = None, extensions: Optional[bytes] = None,
                      tag: Optional[bytes] = None, extra: Optional[List[Tuple[bytes, bytes]]] = None,
                      http_version: bytes = b"1.1", upgrade: Optional[bytes] = b"websocket",
                      connection: Optional[bytes] = b"Upgrade", method: bytes = b"GET",
                      omit_key: bool = False) -> bytes:
    lines = [method + b" " + path + b" HTTP/" + http_version, b"Host: " + host]
    if upgrade is not None:
        lines.append(b"Upgrade: " + upgrade)
    if connection is not None:
        lines.append(b"Connection: " + connection)
    if not omit_key:
        lines.append(b"Sec-WebSocket-Key: " + key)
    if version is not None:
        lines.append(b"Sec-WebSocket-Version: " + version)
    if subprotocols:
        lines.append(b"Sec-WebSocket-Protocol: " + b", ".join(subprotocols))
    if extensions:
        lines.append(b"Sec-WebSocket-Extensions: " + extensions)
    if tag is not None:
        lines.append(b"x-tag: " + tag)
    for n, v in extra or []:
        lines.append(n + b": " + v)
    return b"\r\n".join(lines) + b"\r\n\r\n"


class H1WSClient:
    """HTTP/1.1 side of a WebSocket client: parses the handshake response, then frames."""

    def __init__(self) -> None:
        from .h1 import ResponseParser

        self.http = ResponseParser()
        self.http.expect(b"GET")
        self.ws: Optional[WSParser] = None
        self.response: Any = None
        self._fed = 0

    def feed(self, data: bytes) -> None:
        if self.ws is not None:
            self.ws.feed(data)
            return
        self.http.feed(data)
        if self.http.responses and self.response is None:
            self.response = self.http.responses[0]
            if self.response.status == 101:
                ext = b",".join(self.response.header_all(b"sec-websocket-extensions")).lower()
                self.ws = WSParser(deflate=b"permessage-deflate" in ext,
                                   server_no_context_takeover=b"server_no_context_takeover" in ext)
                raw = bytes(self.http.raw_after_upgrade)
                self.http.raw_after_upgrade.clear()
                if raw:
                    self.ws.feed(raw)

    def eof(self) -> None:
        if self.ws is not None:
            self.ws.eof()
        else:
            self.http.eof()

    @property
    def error(self) -> Optional[str]:
        return self.http.error

    @property
    def responses(self) -> list:
        return self.http.responses
