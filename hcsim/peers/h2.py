"""HTTP/2 client peer built on hyperframe + hpack only, with its own window accounting."""
from __future__ import annotations

import base64
from typing import Dict, List, Optional, Tuple

import hpack
from hyperframe import frame as hf

Headers = List[Tuple[bytes, bytes]]

PREFACE = b"PRI * HTTP/2.0\r\n\r\nSM\r\n\r\n"
DEFAULT_WINDOW = 65535
DEFAULT_FRAME = 16384

S_HEADER_TABLE_SIZE = 1
S_ENABLE_PUSH = 2
S_MAX_CONCURRENT_STREAMS = 3
S_INITIAL_WINDOW_SIZE = 4
S_MAX_FRAME_SIZE = 5
S_MAX_HEADER_LIST_SIZE = 6
S_ENABLE_CONNECT_PROTOCOL = 8


class StreamRec:
    def __init__(self, sid: int) -> None:
        self.sid = sid
        self.header_blocks: List[Headers] = []  # each HEADERS(+CONTINUATION) block, decoded
        self.data = bytearray()
        self.data_frames: List[Tuple[int, int, bool]] = []  # (payload_len, flow_len, end_stream)
        self.ended = 0  # number of END_STREAM flags seen
        self.end_wire: Optional[int] = None
        self.reset: Optional[int] = None
        self.after_end = 0  # frames for this stream seen after END_STREAM / RST
        self.recv_window = DEFAULT_WINDOW  # credit the server still has on this stream
        self.send_window = DEFAULT_WINDOW  # credit we have towards the server
        self.first_wire: Optional[int] = None
        self.pushed_from: Optional[int] = None

    @property
    def status(self) -> Optional[int]:
        for block in self.header_blocks:
            for name, value in block:
                if name == b":status" and value.isdigit():
                    st = int(value)
                    if st >= 200:
                        return st
        return None

    @property
    def final_headers(self) -> Optional[Headers]:
        for block in self.header_blocks:
            for name, value in block:
                if name == b":status" and value.isdigit() and int(value) >= 200:
                    return block
        return None

    @property
    def interim(self) -> List[Headers]:
        out = []
        for block in self.header_blocks:
            for name, value in block:
                if name == b":status" and value.isdigit() and int(value) < 200:
                    out.append(block)
                    break
        return out

    @property
    def trailers(self) -> Optional[Headers]:
        seen_final = False
        for block in self.header_blocks:
            if any(name == b":status" for name, _ in block):
                if any(name == b":status" and value.isdigit() and int(value) >= 200 for name, value in block):
                    seen_final = True
                continue
            if seen_final:
                return block
        return None

    @property
    def complete(self) -> bool:
        return self.ended >= 1 and self.reset is None


class H2Peer:
    def __init__(self, initial_window: int = DEFAULT_WINDOW, max_frame: int = DEFAULT_FRAME,
                 auto_window: bool = True, settings: Optional[Dict[int, int]] = None) -> None:
        self.encoder = hpack.Encoder()
        self.decoder = hpack.Decoder()
        self.decoder.max_header_list_size = 1 << 24
        self.buf = bytearray()
        self.wire_offset = 0
        self.our_initial_window = initial_window
        self.our_max_frame = max_frame
        self.extra_settings = dict(settings or {})
        self.auto_window = auto_window
        self.conn_recv_window = DEFAULT_WINDOW
        self.conn_send_window = DEFAULT_WINDOW
        self.server_settings: Dict[int, int] = {}
        self.server_initial_window = DEFAULT_WINDOW
        self.server_max_frame = DEFAULT_FRAME
        self.settings_frames = 0
        self.settings_acks = 0
        self.streams: Dict[int, StreamRec] = {}
        self.goaway: Optional[Tuple[int, int]] = None
        self.goaway_count = 0
        self.flow_violations: List[str] = []
        self.errors: List[str] = []
        self.frames: List[tuple] = []  # (wire_offset_end, type, sid, flags, length, time)
        self.clock = None  # optional callable giving the simulated time (stamps frames)
        self.reset_times: Dict[int, float] = {}
        self.end_times: Dict[int, float] = {}
        self.pings: List[bytes] = []
        self.ping_acks: List[bytes] = []
        self.out = bytearray()  # bytes the peer wants to send (auto replies, uploads)
        self.uploads: Dict[int, list] = {}  # sid -> [bytearray, end_stream, pad]
        self._hdr_sid: Optional[int] = None
        self._hdr_buf = bytearray()
        self._hdr_end_stream = False
        self.next_sid = 1
        self.consumed_unacked: Dict[int, int] = {}
        self._pending_settings: List[Dict[int, int]] = []
        self.pushes: List[Tuple[int, int, Headers]] = []
        self.upgraded_101: Optional[bytes] = None

    # ------------------------------------------------------------------ building
    def take_out(self) -> bytes:
        data = bytes(self.out)
        self.out.clear()
        return data

    def preface(self, with_magic: bool = True) -> bytes:
        settings = dict(self.extra_settings)
        if self.our_initial_window != DEFAULT_WINDOW:
            settings[S_INITIAL_WINDOW_SIZE] = self.our_initial_window
        if self.our_max_frame != DEFAULT_FRAME:
            settings[S_MAX_FRAME_SIZE] = self.our_max_frame
        f = hf.SettingsFrame(0, settings=settings)
        return (PREFACE if with_magic else b"") + f.serialize()

    def settings_payload_b64(self) -> bytes:
        settings = dict(self.extra_settings)
        if self.our_initial_window != DEFAULT_WINDOW:
            settings[S_INITIAL_WINDOW_SIZE] = self.our_initial_window
        if self.our_max_frame != DEFAULT_FRAME:
            settings[S_MAX_FRAME_SIZE] = self.our_max_frame
        f = hf.SettingsFrame(0, settings=settings)
        return base64.urlsafe_b64encode(f.serialize_body()).rstrip(b"=")

    def new_stream(self) -> int:
        sid = self.next_sid
        self.next_sid += 2
        return sid

    def _stream(self, sid: int) -> StreamRec:
        s = self.streams.get(sid)
        if s is None:
            s = StreamRec(sid)
            s.recv_window = self.our_initial_window
            s.send_window = self.server_initial_window
            self.streams[sid] = s
        return s

    def open_stream(self, sid: int) -> StreamRec:
        return self._stream(sid)

    def headers(self, sid: int, headers: Headers, end_stream: bool = False,
                priority: Optional[Tuple[int, int, bool]] = None, pad: int = 0,
                split: Optional[List[int]] = None, huffman: bool = True) -> bytes:
        self._stream(sid)
        block = self.encoder.encode(headers, huffman=huffman)
        pieces = []
        if split:
            pos = 0
            for size in split:
                if pos >= len(block):
                    break
                pieces.append(block[pos : pos + max(1, size)])
                pos += max(1, size)
            if pos < len(block):
                pieces.append(block[pos:])
        else:
            limit = self.server_max_frame - 300
            pieces = [block[i : i + limit] for i in range(0, len(block), limit)] or [b""]
        out = bytearray()
        flags = []
        if end_stream:
            flags.append("END_STREAM")
        if len(pieces) == 1:
            flags.append("END_HEADERS")
        f = hf.HeadersFrame(sid, data=pieces[0], flags=flags)
        if priority is not None:
            f.flags.add("PRIORITY")
            f.depends_on, f.stream_weight, f.exclusive = priority
        if pad:
            f.flags.add("PADDED")
            f.pad_length = pad
        out += f.serialize()
        for i, piece in enumerate(pieces[1:]):
            c = hf.ContinuationFrame(sid, data=piece)
            if i == len(pieces) - 2:
                c.flags.add("END_HEADERS")
            out += c.serialize()
        return bytes(out)

    def data_frame(self, sid: int, data: bytes, end_stream: bool = False, pad: int = 0) -> bytes:
        f = hf.DataFrame(sid, data=data)
        if end_stream:
            f.flags.add("END_STREAM")
        if pad:
            f.flags.add("PADDED")
            f.pad_length = pad
        flow = f.flow_controlled_length
        self.conn_send_window -= flow
        self._stream(sid).send_window -= flow
        return f.serialize()

    def queue_upload(self, sid: int, data: bytes, end_stream: bool = True,
                     frame_sizes: Optional[List[int]] = None, pad: int = 0) -> None:
        if sid in self.uploads:
            entry = self.uploads[sid]
            entry[0].extend(data)
            entry[1] = end_stream
            entry[2].extend(frame_sizes or [])
        else:
            self.uploads[sid] = [bytearray(data), end_stream, list(frame_sizes or []), pad]
        self.pump_uploads()

    def pump_uploads(self) -> None:
        """Send queued request bodies as far as the server's windows allow."""
        for sid in sorted(self.uploads):
            buf, end_stream, sizes, pad = self.uploads[sid]
            s = self._stream(sid)
            if s.reset is not None:
                del self.uploads[sid]
                continue
            if not buf and end_stream:
                # empty body announced without END_STREAM on HEADERS: a bare END_STREAM DATA frame
                self.out += self.data_frame(sid, b"", end_stream=True)
            while buf:
                overhead = (1 + pad) if pad else 0
                room = min(self.conn_send_window, s.send_window, self.server_max_frame) - overhead
                if room <= 0:
                    break
                want = sizes.pop(0) if sizes else len(buf)
                n = max(1, min(room, want, len(buf)))
                piece = bytes(buf[:n])
                del buf[:n]
                last = not buf
                self.out += self.data_frame(sid, piece, end_stream=(last and end_stream), pad=pad)
            if not buf:
                del self.uploads[sid]

    def window_update(self, sid: int, increment: int) -> bytes:
        f = hf.WindowUpdateFrame(sid, window_increment=increment)
        if sid == 0:
            self.conn_recv_window += increment
        else:
            self._stream(sid).recv_window += increment
        return f.serialize()

    def rst_stream(self, sid: int, code: int = 8) -> bytes:
        f = hf.RstStreamFrame(sid, error_code=code)
        s = self._stream(sid)
        if s.reset is None:
            s.reset = -code - 1  # negative: reset by us
        self.uploads.pop(sid, None)
        return f.serialize()

    def settings(self, settings: Dict[int, int]) -> bytes:
        """Send SETTINGS; they bind the server only once it has acknowledged them (RFC 7540 6.5.3),
        so the ledger applies them when the ACK arrives."""
        self._pending_settings.append(dict(settings))
        return hf.SettingsFrame(0, settings=settings).serialize()

    def _apply_acked_settings(self) -> None:
        if not self._pending_settings:
            return
        settings = self._pending_settings.pop(0)
        if S_INITIAL_WINDOW_SIZE in settings:
            delta = settings[S_INITIAL_WINDOW_SIZE] - self.our_initial_window
            self.our_initial_window = settings[S_INITIAL_WINDOW_SIZE]
            for s in self.streams.values():
                s.recv_window += delta
        if S_MAX_FRAME_SIZE in settings:
            self.our_max_frame = settings[S_MAX_FRAME_SIZE]

    def ping(self, payload: bytes = b"\0" * 8) -> bytes:
        self.pings.append(payload)
        return hf.PingFrame(0, opaque_data=payload).serialize()

    def priority(self, sid: int, depends_on: int, weight: int, exclusive: bool) -> bytes:
        f = hf.PriorityFrame(sid, depends_on=depends_on, stream_weight=weight, exclusive=exclusive)
        return f.serialize()

    def goaway_frame(self, last: int = 0, code: int = 0) -> bytes:
        return hf.GoAwayFrame(0, last_stream_id=last, error_code=code).serialize()

    # ------------------------------------------------------------------ parsing
    def feed(self, data: bytes) -> None:
        self.buf.extend(data)
        while True:
            if len(self.buf) < 9:
                return
            try:
                frame, length = hf.Frame.parse_frame_header(memoryview(bytes(self.buf[:9])))
            except Exception as error:
                self.errors.append(f"bad frame header: {error!r}")
                self.buf.clear()
                return
            if length > self.our_max_frame:
                self.flow_violations.append(
                    f"frame of {length} bytes exceeds our SETTINGS_MAX_FRAME_SIZE {self.our_max_frame}"
                )
            if len(self.buf) < 9 + length:
                return
            body = bytes(self.buf[9 : 9 + length])
            del self.buf[: 9 + length]
            self.wire_offset += 9 + length
            try:
                frame.parse_body(memoryview(body))
            except Exception as error:
                self.errors.append(f"bad frame body: {error!r}")
                continue
            self._on_frame(frame, length)

    def eof(self) -> None:
        if self.buf:
            self.errors.append(f"{len(self.buf)} trailing bytes of an incomplete frame at EOF")

    def _on_frame(self, frame: hf.Frame, length: int) -> None:
        sid = frame.stream_id
        now = self.clock() if self.clock is not None else None
        self.frames.append((self.wire_offset, type(frame).__name__, sid, sorted(frame.flags), length, now))
        if now is not None:
            if isinstance(frame, hf.RstStreamFrame):
                self.reset_times.setdefault(sid, now)
            if "END_STREAM" in frame.flags:
                self.end_times.setdefault(sid, now)
        if self._hdr_sid is not None and not isinstance(frame, hf.ContinuationFrame):
            self.errors.append("expected CONTINUATION")
        if isinstance(frame, hf.SettingsFrame):
            if "ACK" in frame.flags:
                self.settings_acks += 1
                if self.settings_acks > 1:  # the first ACK answers the preface SETTINGS
                    self._apply_acked_settings()
            else:
                self.settings_frames += 1
                for k, v in frame.settings.items():
                    self.server_settings[int(k)] = v
                    if int(k) == S_INITIAL_WINDOW_SIZE:
                        delta = v - self.server_initial_window
                        self.server_initial_window = v
                        for s in self.streams.values():
                            s.send_window += delta
                    elif int(k) == S_MAX_FRAME_SIZE:
                        self.server_max_frame = v
                    elif int(k) == S_HEADER_TABLE_SIZE:
                        self.encoder.header_table_size = v
                self.out += hf.SettingsFrame(0, flags=["ACK"]).serialize()
                self.pump_uploads()
        elif isinstance(frame, hf.PingFrame):
            if "ACK" in frame.flags:
                self.ping_acks.append(frame.opaque_data)
            else:
                self.out += hf.PingFrame(0, opaque_data=frame.opaque_data, flags=["ACK"]).serialize()
        elif isinstance(frame, hf.WindowUpdateFrame):
            if sid == 0:
                self.conn_send_window += frame.window_increment
            else:
                self._stream(sid).send_window += frame.window_increment
            self.pump_uploads()
        elif isinstance(frame, (hf.HeadersFrame, hf.PushPromiseFrame)):
            s = self._stream(sid)
            self._note_stream_frame(s)
            if isinstance(frame, hf.PushPromiseFrame):
                self._hdr_push = frame.promised_stream_id
            else:
                self._hdr_push = None
            self._hdr_sid = sid
            self._hdr_buf = bytearray(frame.data)
            self._hdr_end_stream = "END_STREAM" in frame.flags
            if "END_HEADERS" in frame.flags:
                self._finish_headers()
        elif isinstance(frame, hf.ContinuationFrame):
            if self._hdr_sid != sid:
                self.errors.append("unexpected CONTINUATION")
                return
            self._hdr_buf.extend(frame.data)
            if "END_HEADERS" in frame.flags:
                self._finish_headers()
        elif isinstance(frame, hf.DataFrame):
            s = self._stream(sid)
            self._note_stream_frame(s)
            flow = frame.flow_controlled_length
            if flow > 0 and flow > s.recv_window:
                self.flow_violations.append(
                    f"DATA of {flow} on stream {sid} exceeds stream window {s.recv_window}"
                )
            if flow > 0 and flow > self.conn_recv_window:
                self.flow_violations.append(
                    f"DATA of {flow} on stream {sid} exceeds connection window {self.conn_recv_window}"
                )
            s.recv_window -= flow
            self.conn_recv_window -= flow
            s.data.extend(frame.data)
            end = "END_STREAM" in frame.flags
            s.data_frames.append((len(frame.data), flow, end))
            if end:
                s.ended += 1
                s.end_wire = self.wire_offset
            if self.auto_window and flow:
                # top the windows up to at least 64 KiB once they have fallen below half of that
                target = max(self.our_initial_window, DEFAULT_WINDOW)
                if self.conn_recv_window < target // 2:
                    self.out += self.window_update(0, target - self.conn_recv_window)
                if not end and s.reset is None and s.recv_window < target // 2:
                    self.out += self.window_update(sid, target - s.recv_window)
        elif isinstance(frame, hf.RstStreamFrame):
            s = self._stream(sid)
            if s.reset is None or s.reset < 0:
                s.reset = frame.error_code
            self.uploads.pop(sid, None)
        elif isinstance(frame, hf.GoAwayFrame):
            self.goaway = (frame.last_stream_id, frame.error_code)
            self.goaway_count += 1
        elif isinstance(frame, hf.PriorityFrame):
            pass

    def _note_stream_frame(self, s: StreamRec) -> None:
        if s.first_wire is None:
            s.first_wire = self.wire_offset
        if s.ended or (s.reset is not None and s.reset >= 0):
            s.after_end += 1

    def _finish_headers(self) -> None:
        sid = self._hdr_sid
        self._hdr_sid = None
        try:
            headers = [(bytes(n), bytes(v)) for n, v in self.decoder.decode(bytes(self._hdr_buf), raw=True)]
        except Exception as error:
            self.errors.append(f"hpack decode failed: {error!r}")
            return
        if self._hdr_push is not None:
            promised = self._stream(self._hdr_push)
            promised.pushed_from = sid
            self.pushes.append((sid, self._hdr_push, headers))
            return
        s = self._stream(sid)
        s.header_blocks.append(headers)
        if self._hdr_end_stream:
            s.ended += 1
            s.end_wire = self.wire_offset

    # ------------------------------------------------------------------ queries
    def stream_done(self, sid: int) -> bool:
        s = self.streams.get(sid)
        return s is not None and (s.ended > 0 or s.reset is not None)


class H2WSClient:
    """WebSocket over HTTP/2 (RFC 8441): feeds the DATA payload of one stream to a WSParser."""

    def __init__(self, peer: H2Peer, sid: int) -> None:
        from .ws import WSParser

        self.peer = peer
        self.sid = sid
        self.ws = None
        self._WSParser = WSParser
        self._fed = 0

    def feed(self, data: bytes) -> None:
        self.peer.feed(data)
        st = self.peer.streams.get(self.sid)
        if st is None:
            return
        if self.ws is None and st.status == 200:
            ext = b",".join(v for n, v in (st.final_headers or []) if n == b"sec-websocket-extensions").lower()
            self.ws = self._WSParser(deflate=b"permessage-deflate" in ext,
                                     server_no_context_takeover=b"server_no_context_takeover" in ext)
        if self.ws is not None and len(st.data) > self._fed:
            chunk = bytes(st.data[self._fed:])
            self._fed = len(st.data)
            self.ws.feed(chunk)

    def eof(self) -> None:
        self.peer.eof()

    def take_out(self) -> bytes:
        return self.peer.take_out()

    @property
    def status(self):
        st = self.peer.streams.get(self.sid)
        return st.status if st is not None else None


class H2cUpgradeParser:
    """Parses the HTTP/1.1 101 response of an h2c upgrade, then hands over to an H2Peer."""

    def __init__(self, peer: H2Peer) -> None:
        self.peer = peer
        self.head = bytearray()
        self.switched = False
        self.status: Optional[int] = None
        self.head_bytes = b""
        self.error: Optional[str] = None

    def feed(self, data: bytes) -> None:
        if self.switched:
            self.peer.feed(data)
            return
        self.head.extend(data)
        i = self.head.find(b"\r\n\r\n")
        if i < 0:
            return
        head = bytes(self.head[: i + 4])
        rest = bytes(self.head[i + 4 :])
        self.head_bytes = head
        try:
            self.status = int(head.split(b" ", 2)[1])
        except Exception:
            self.error = f"bad upgrade response {head[:40]!r}"
            return
        if self.status == 101:
            self.switched = True
            self.peer.upgraded_101 = head
            # wire offsets stay relative to the start of the connection's byte stream
            self.peer.wire_offset += len(head)
            if rest:
                self.peer.feed(rest)
        else:
            self.error = f"upgrade answered {self.status}"

    def eof(self) -> None:
        if self.switched:
            self.peer.eof()

    def take_out(self) -> bytes:
        return self.peer.take_out()
