"""Own HTTP/1.x wire code for the simulated clients (no h11 on this side)."""
from __future__ import annotations

from typing import List, Optional, Tuple

Headers = List[Tuple[bytes, bytes]]


def build_request(
    method: bytes,
    target: bytes,
    headers: Headers,
    body: bytes = b"",
    *,
    version: bytes = b"1.1",
    chunks: Optional[List[int]] = None,
    chunk_ext: bytes = b"",
    trailers: Optional[Headers] = None,
    complete: bool = True,
) -> bytes:
    """Serialise a request.  `chunks` (sizes) selects chunked framing of `body`."""
    out = bytearray()
    out += method + b" " + target + b" HTTP/" + version + b"\r\n"
    for name, value in headers:
        out += name + b": " + value + b"\r\n"
    out += b"\r\n"
    if chunks is None:
        out += body
    else:
        pos = 0
        for size in chunks:
            piece = body[pos : pos + size]
            pos += size
            if not piece:
                continue
            out += b"%x" % len(piece) + chunk_ext + b"\r\n" + piece + b"\r\n"
        if pos < len(body):
            piece = body[pos:]
            out += b"%x" % len(piece) + b"\r\n" + piece + b"\r\n"
        if complete:
            out += b"0\r\n"
            for name, value in trailers or []:
                out += name + b": " + value + b"\r\n"
            out += b"\r\n"
    return bytes(out)


class Response:
    def __init__(self) -> None:
        self.version = b""
        self.status = 0
        self.reason = b""
        self.headers: Headers = []
        self.body = bytearray()
        self.trailers: Headers = []
        self.interim: List[Tuple[int, Headers]] = []
        self.framing = ""  # "length" | "chunked" | "close" | "none"
        self.complete = False
        self.head_end = 0  # wire offset just after the head
        self.end = 0  # wire offset just after the last byte of this response
        self.start = 0
        self.declared_length: Optional[int] = None

    def header(self, name: bytes) -> Optional[bytes]:
        for n, v in self.headers:
            if n.lower() == name:
                return v
        return None

    def header_all(self, name: bytes) -> List[bytes]:
        return [v for n, v in self.headers if n.lower() == name]

    def summary(self) -> tuple:
        return (self.status, list(self.headers), bytes(self.body), self.complete, self.framing)


class ParseError(Exception):
    pass


class ResponseParser:
    """Incremental parser for a sequence of HTTP/1.x responses on one connection.

    `expect(method)` must be called once per request sent, in order, so that HEAD
    responses are framed correctly.  After `feed`/`eof` inspect `.responses`,
    `.current` (an incomplete response or None), `.error` and `.leftover`.
    """

    def __init__(self) -> None:
        self.buf = bytearray()
        self.offset = 0  # wire offset of buf[0]
        self.responses: List[Response] = []
        self.current: Optional[Response] = None
        self.methods: List[bytes] = []
        self.error: Optional[str] = None
        self.state = "head"
        self.remaining = 0
        self.eof_seen = False
        self.upgraded = False  # after a 101 everything else is raw
        self.raw_after_upgrade = bytearray()
        self._interim: List[Tuple[int, Headers]] = []
        self._start = 0

    def expect(self, method: bytes) -> None:
        self.methods.append(method.upper())

    # -- helpers -----------------------------------------------------------------
    def _take(self, n: int) -> bytes:
        data = bytes(self.buf[:n])
        del self.buf[:n]
        self.offset += n
        return data

    def _line(self) -> Optional[bytes]:
        i = self.buf.find(b"\r\n")
        if i < 0:
            return None
        line = self._take(i + 2)
        return line[:-2]

    def _finish(self) -> None:
        r = self.current
        assert r is not None
        r.complete = True
        r.end = self.offset
        self.responses.append(r)
        self.current = None
        self.state = "head"

    # -- driving -------------------------------------------------------------------
    def feed(self, data: bytes) -> None:
        if self.error:
            return
        self.buf.extend(data)
        try:
            self._run()
        except ParseError as error:
            self.error = str(error)

    def eof(self) -> None:
        self.eof_seen = True
        if self.error:
            return
        if self.current is not None and self.state == "close-body":
            self.current.body.extend(self._take(len(self.buf)))
            self._finish()

    @property
    def leftover(self) -> bytes:
        return bytes(self.buf)

    def _run(self) -> None:
        while True:
            if self.upgraded:
                self.raw_after_upgrade.extend(self._take(len(self.buf)))
                return
            if self.state == "head":
                if not self._parse_head():
                    return
            elif self.state == "length-body":
                if not self.buf:
                    return
                n = min(self.remaining, len(self.buf))
                self.current.body.extend(self._take(n))
                self.remaining -= n
                if self.remaining == 0:
                    self._finish()
            elif self.state == "close-body":
                if not self.buf:
                    return
                self.current.body.extend(self._take(len(self.buf)))
            elif self.state == "chunk-size":
                line = self._line()
                if line is None:
                    if len(self.buf) > 4096:
                        raise ParseError("chunk size line too long")
                    return
                size_text = line.split(b";", 1)[0].strip()
                try:
                    size = int(size_text, 16)
                except ValueError:
                    raise ParseError(f"bad chunk size {line!r}")
                if size == 0:
                    self.state = "trailers"
                else:
                    self.remaining = size
                    self.state = "chunk-data"
            elif self.state == "chunk-data":
                if not self.buf:
                    return
                n = min(self.remaining, len(self.buf))
                self.current.body.extend(self._take(n))
                self.remaining -= n
                if self.remaining == 0:
                    self.state = "chunk-crlf"
            elif self.state == "chunk-crlf":
                if len(self.buf) < 2:
                    return
                if self._take(2) != b"\r\n":
                    raise ParseError("missing CRLF after chunk")
                self.state = "chunk-size"
            elif self.state == "trailers":
                line = self._line()
                if line is None:
                    return
                if line == b"":
                    self._finish()
                else:
                    name, sep, value = line.partition(b":")
                    if not sep:
                        raise ParseError(f"bad trailer line {line!r}")
                    self.current.trailers.append((name, value.strip()))
            else:  # pragma: no cover
                raise ParseError("bad parser state")

    def _parse_head(self) -> bool:
        i = self.buf.find(b"\r\n\r\n")
        if i < 0:
            if len(self.buf) > 256 * 1024:
                raise ParseError("response head too long")
            return False
        if self.current is None and not self._interim:
            self._start = self.offset
        head = self._take(i + 4)
        lines = head[:-4].split(b"\r\n")
        parts = lines[0].split(b" ", 2)
        if len(parts) < 2 or not parts[0].startswith(b"HTTP/"):
            raise ParseError(f"bad status line {lines[0]!r}")
        try:
            status = int(parts[1])
        except ValueError:
            raise ParseError(f"bad status {lines[0]!r}")
        if not (100 <= status <= 999) or len(parts[1]) != 3:
            raise ParseError(f"bad status {lines[0]!r}")
        headers: Headers = []
        for line in lines[1:]:
            name, sep, value = line.partition(b":")
            if not sep or not name or name != name.strip():
                raise ParseError(f"bad header line {line!r}")
            for ch in b"\r\n\x00":
                if ch in name or ch in value:
                    raise ParseError(f"control byte in header line {line!r}")
            headers.append((name, value.strip(b" \t")))
        if 100 <= status < 200 and status != 101:
            self._interim.append((status, headers))
            return True
        r = Response()
        r.start = self._start
        r.version = parts[0][5:]
        r.status = status
        r.reason = parts[2] if len(parts) > 2 else b""
        r.headers = headers
        r.interim = self._interim
        self._interim = []
        r.head_end = self.offset
        self.current = r
        if not self.methods:
            raise ParseError("response without a request")
        method = self.methods.pop(0)
        if status == 101:
            r.framing = "none"
            self._finish()
            self.upgraded = True
            return True
        te = [v.lower() for v in r.header_all(b"transfer-encoding")]
        cl = r.header_all(b"content-length")
        if cl:
            try:
                r.declared_length = int(cl[0])
            except ValueError:
                raise ParseError(f"bad content-length {cl[0]!r}")
            if any(c != cl[0] for c in cl):
                raise ParseError("conflicting content-length headers")
        if method == b"HEAD" or status in (204, 304):
            r.framing = "none"
            self._finish()
        elif te and te[-1] == b"chunked":
            r.framing = "chunked"
            self.state = "chunk-size"
        elif cl:
            r.framing = "length"
            self.remaining = r.declared_length
            if self.remaining == 0:
                self._finish()
            else:
                self.state = "length-body"
        else:
            r.framing = "close"
            self.state = "close-body"
        return True
