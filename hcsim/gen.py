"""Generators for well-formed requests (conservative grammar) and reference reconstruction."""
from __future__ import annotations

from typing import List, Optional, Tuple

from .core import Tape

Headers = List[Tuple[bytes, bytes]]

METHODS = [b"GET", b"POST", b"PUT", b"DELETE", b"PATCH", b"OPTIONS", b"HEAD", b"QUERY", b"M-SEARCH"]
BODY_METHODS = [b"POST", b"PUT", b"PATCH", b"DELETE", b"QUERY"]
SEGMENTS = [b"a", b"Bc", b"x.y", b"~u_", b"%41", b"%c3%a9", b"%e2%82%ac", b"%ff", b"%2F", b"%2f%41",
            b"%zz", b"%", b"a%20b", b"-", b"0", b"%C3", b"%A9x", b"caf%c3%a9", b"%00", b"+", b"@:!$&'()*,;="]
QUERIES = [None, b"", b"a=1", b"a=1&b=%20", b"x?y", b"%zz", b"q=caf%c3%a9", b"?", b"a=b=c"]
HEADER_NAMES = [b"X-One", b"x-two", b"Accept", b"X-MiXeD-Case", b"user-agent", b"X-Rep", b"X-Rep",
                b"x-empty", b"Accept-Language", b"X-One"]
HEADER_VALUES = [b"v", b"", b"a, b", b"with space", b"\"quoted\"", b"1", b"text/html;q=0.9", b"*/*",
                 b"caf\xc3\xa9", b"\xff\xfe", b"tab\there", b"=;,", b"x" * 64]


def own_unquote(raw: bytes) -> str:
    """Percent-decode to bytes, then UTF-8 with replacement (independent of urllib)."""
    out = bytearray()
    i = 0
    n = len(raw)
    hexd = b"0123456789abcdefABCDEF"
    while i < n:
        c = raw[i]
        if c == 0x25 and i + 2 < n and raw[i + 1] in hexd and raw[i + 2] in hexd:
            out.append(int(raw[i + 1 : i + 3], 16))
            i += 3
        else:
            out.append(c)
            i += 1
    return out.decode("utf-8", "replace")


def gen_target(tape: Tape) -> bytes:
    nseg = 1 + tape.draw(4, "target.nseg")
    path = b""
    for _ in range(nseg):
        path += b"/" + tape.choice(SEGMENTS, "target.seg")
    if tape.chance(1, 6, "target.trailing"):
        path += b"/"
    q = tape.choice(QUERIES, "target.query")
    if q is not None:
        path += b"?" + q
    return path


def gen_headers(tape: Tape, h2: bool) -> Headers:
    n = tape.draw(6, "headers.n")
    headers: Headers = []
    for _ in range(n):
        name = tape.choice(HEADER_NAMES, "headers.name")
        value = tape.choice(HEADER_VALUES, "headers.value")
        if h2:
            name = name.lower()
        headers.append((name, value))
    return headers


def gen_body(tape: Tape, big: bool = False) -> bytes:
    kind = tape.weighted([4, 3, 4, 2, 1 if big else 0, 1 if big else 0], "body.kind")
    if kind == 0:
        return b""
    if kind == 1:
        return b"x"
    if kind == 2:
        n = 2 + tape.draw(300, "body.small")
    elif kind == 3:
        n = 1000 + tape.draw(20000, "body.medium")
    elif kind == 4:
        n = 65536 + tape.draw(70000, "body.big")
    else:
        n = 131072 + tape.draw(140000, "body.huge")
    seed = tape.draw(251, "body.seed")
    return bytes((seed + i * 7 + (i >> 8)) & 0xFF for i in range(n))


def gen_chunk_sizes(tape: Tape, total: int, many: bool = False) -> List[int]:
    """Chunk sizes summing to at least `total`."""
    if total == 0:
        return []
    mode = tape.draw(4, "chunks.mode")
    if mode == 0:
        return [total]
    if mode == 1:
        size = max(1, total // (2 + tape.draw(4, "chunks.k")))
    elif mode == 2:
        size = 1 + tape.draw(16, "chunks.tiny")
        if total > 400 and not many:
            size = max(size, total // 40)
    else:
        size = max(1, total // (12 + tape.draw(20, "chunks.many")))
    sizes = []
    left = total
    while left > 0:
        sizes.append(min(size, left))
        left -= size
    return sizes


def ows_variant(tape: Tape, name: bytes, value: bytes) -> bytes:
    """Serialise one header line (without CRLF) with a tape-chosen amount of OWS."""
    pre = [b" ", b"", b"  ", b"\t"][tape.draw(4, "ows.pre")]
    post = [b"", b" ", b"\t "][tape.draw(3, "ows.post")]
    return name + b":" + pre + value + post


def split_points(tape: Tape, total: int, pieces: int) -> List[int]:
    if total <= 1 or pieces <= 1:
        return []
    pts = sorted({1 + tape.draw(total - 1, "split.pt") for _ in range(pieces - 1)})
    return pts


def cut(data: bytes, points: List[int]) -> List[bytes]:
    out = []
    prev = 0
    for p in points:
        out.append(data[prev:p])
        prev = p
    out.append(data[prev:])
    return [x for x in out if x]
