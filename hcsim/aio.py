"""asyncio backend: the real SelectorEventLoop on a simulated selector and clock."""
from __future__ import annotations

import asyncio
import selectors
from typing import Any, Callable, Optional

from .core import Quiescent, Sim

EVENT_READ = selectors.EVENT_READ
EVENT_WRITE = selectors.EVENT_WRITE

MAX_STEPS_PER_INSTANT = 5000


class SimSelector(selectors._BaseSelectorImpl):
    def __init__(self, sim: Sim) -> None:
        super().__init__()
        self.sim = sim
        self.loop: Optional["SimLoop"] = None
        self._instant = -1.0
        self._instant_steps = 0
        self._last_seq = -1

    def _ready_events(self) -> list:
        ready = []
        fds = self.sim.fds
        for fd, key in self._fd_to_key.items():
            obj = fds.get(fd)
            if obj is None:
                continue
            ev = 0
            if key.events & EVENT_READ and obj.readable():
                ev |= EVENT_READ
            if key.events & EVENT_WRITE and obj.writable():
                ev |= EVENT_WRITE
            if ev:
                ready.append((key, ev))
        if len(ready) > 1:
            ready.sort(key=lambda kv: kv[0].fd)
            k = self.sim.tape.draw(len(ready), "ready.order")
            if k:
                ready = ready[k:] + ready[:k]
        return ready

    def select(self, timeout: Optional[float] = None) -> list:
        sim = self.sim
        loop = self.loop
        sim.steps += 1
        if sim._now == self._instant and sim.seq == self._last_seq:
            self._instant_steps += 1
            if self._instant_steps > MAX_STEPS_PER_INSTANT:
                sim.probe("spin.detected")
                raise SpinError(
                    f"more than {MAX_STEPS_PER_INSTANT} loop iterations without any recorded event at t={sim._now}"
                )
        else:
            self._instant = sim._now
            self._last_seq = sim.seq
            self._instant_steps = 0
        target = None
        if timeout is not None and timeout > 0:
            target = sim._now + timeout
            if loop._scheduled:
                when = loop._scheduled[0]._when
                if abs(when - target) < 1e-6:
                    target = when
        while True:
            ran = sim.run_due()
            ready = self._ready_events()
            if ready or (ran and loop._ready):
                return ready
            if timeout is not None and timeout <= 0:
                return []
            nxt = sim.next_time()
            if timeout is None:
                if nxt is None:
                    raise Quiescent()
                sim._now = max(sim._now, nxt)
                continue
            if nxt is not None and nxt <= target:
                sim._now = max(sim._now, nxt)
                continue
            sim._now = target
            return []


class SpinError(Exception):
    pass


_task_serial = 0


class SimTask(asyncio.Task):
    """Task whose hash is its creation serial, so sets of tasks iterate reproducibly."""

    def __init__(self, coro, *, loop=None, name=None, context=None, eager_start=False):
        global _task_serial
        _task_serial += 1
        self._serial = _task_serial
        super().__init__(coro, loop=loop, name=name, context=context)

    def __hash__(self) -> int:
        return self._serial

    def __eq__(self, other: Any) -> bool:
        return self is other


def _task_factory(loop, coro, **kwargs):
    return SimTask(coro, loop=loop, **kwargs)


class SimLoop(asyncio.SelectorEventLoop):
    def __init__(self, sim: Sim) -> None:
        self.sim = sim
        selector = SimSelector(sim)
        super().__init__(selector)
        selector.loop = self
        self._clock_resolution = 1e-9
        self.set_task_factory(_task_factory)
        self.exc_contexts: list = []
        self.set_exception_handler(self._on_exception)
        self.executor_hook: Optional[Callable] = None

    def time(self) -> float:
        return self.sim._now

    def _write_to_self(self) -> None:
        pass

    def _on_exception(self, loop, context: dict) -> None:
        exc = context.get("exception")
        message = str(context.get("message"))
        if isinstance(exc, asyncio.CancelledError) and "StreamReaderProtocol.connection_made" in message:
            # CPython 3.12.1 artefact: the done-callback of a *cancelled* client_connected_cb task calls
            # task.exception(), which raises CancelledError; it says nothing about hypercorn
            self.sim.probe("asyncio.cancelled_client_cb")
            return
        self.exc_contexts.append((context.get("message"), repr(exc)))
        self.sim.rec("loop.exception", str(context.get("message")), repr(exc))

    def run_in_executor(self, executor, func, *args):
        if self.executor_hook is not None:
            return self.executor_hook(self, func, *args)
        return super().run_in_executor(executor, func, *args)


def reset_task_serial() -> None:
    global _task_serial
    _task_serial = 0


def run_asyncio_world(world, main: Callable[["SimLoop"], Any]) -> None:
    """Run `main(loop)` (which awaits worker_serve) on a fresh SimLoop and classify the end."""
    from .world import DeadlineHit

    reset_task_serial()
    sim = world.sim
    loop = SimLoop(sim)
    asyncio.set_event_loop(loop)
    world.loop = loop
    try:
        try:
            loop.run_until_complete(main(loop))
            world.result = "returned"
        except Quiescent:
            world.result = "quiescent"
        except DeadlineHit:
            world.result = "deadline"
        except SpinError as error:
            world.result = "spin"
            world.exception = error
        except BaseException as error:  # worker_serve raised
            world.result = "raised"
            world.exception = error
        world.returned_at = sim._now
        sim.rec("worker.end", world.result, type(world.exception).__name__)
        pending = [t for t in asyncio.all_tasks(loop) if not t.done()]
        pending.sort(key=lambda t: getattr(t, "_serial", 0))
        world.leftover_tasks = [_task_label(t) for t in pending]
        world.loop_exceptions = list(loop.exc_contexts)
        world.open_fds = sorted(fd for fd, obj in sim.fds.items())
        # Clean up so that the loop can be closed; nothing below is observed.
        saved_heap = list(sim.heap)
        sim.heap.clear()
        for t in pending:
            t.cancel()
        if pending:
            try:
                loop.run_until_complete(asyncio.gather(*pending, return_exceptions=True))
            except BaseException:
                pass
    finally:
        asyncio.set_event_loop(None)
        try:
            loop.close()
        except BaseException:
            pass
        try:
            import heapq

            sim.heap[:] = saved_heap
            heapq.heapify(sim.heap)
            sim._now = world.returned_at if world.returned_at is not None else sim._now
        except NameError:
            pass


def _task_label(task: asyncio.Task) -> str:
    coro = task.get_coro()
    name = getattr(coro, "__qualname__", None) or repr(coro)
    frame = getattr(coro, "cr_frame", None)
    line = frame.f_lineno if frame is not None else 0
    return f"{name}:{line}"
