"""Tape (one source of choices) and Sim (virtual time, event heap, log, counters)."""
from __future__ import annotations

import hashlib
import heapq
import random
from collections import Counter
from typing import Any, Callable, List, Optional, Sequence


class Tape:
    """Every choice of a run is a draw from this tape.

    Generation mode: values come from random.Random(seed) and are recorded.
    Replay mode: values are read from a list (reduced mod n, exhausted -> 0).
    By convention 0 is the simplest choice (no fault, no delay, first alternative).
    """

    def __init__(self, seed: Optional[int] = None, values: Optional[Sequence[int]] = None) -> None:
        self.seed = seed
        self.replay = values is not None
        self.values = list(values) if values is not None else []
        self.rng = random.Random(seed) if values is None else None
        self.pos = 0
        self.record: List[int] = []
        self.labels: List[str] = []
        self.spans: List[tuple] = []  # (start, end, count_pos): removable sub-structures
        self._open: List[tuple] = []

    def draw(self, n: int, label: str = "") -> int:
        if n <= 1:
            return 0
        if self.replay:
            v = self.values[self.pos] % n if self.pos < len(self.values) else 0
            self.pos += 1
        else:
            v = self.rng.randrange(n)
        self.record.append(v)
        self.labels.append(label)
        return v

    def draw_count(self, n: int, label: str = "") -> tuple:
        """Draw a repetition count; returns (value, position on the tape or None)."""
        pos = len(self.record) if n > 1 else None
        return self.draw(n, label), pos

    def span_begin(self, count_pos: Optional[int] = None) -> None:
        self._open.append((len(self.record), count_pos))

    def span_end(self) -> None:
        start, count_pos = self._open.pop()
        if len(self.record) > start:
            self.spans.append((start, len(self.record), count_pos))

    def chance(self, num: int, den: int, label: str = "") -> bool:
        """True with probability num/den; 0 on the tape means False."""
        if num <= 0:
            return False
        return self.draw(den, label) >= den - num

    def choice(self, seq: Sequence[Any], label: str = "") -> Any:
        return seq[self.draw(len(seq), label)]

    def weighted(self, weights: Sequence[int], label: str = "") -> int:
        """Index drawn with the given integer weights; index 0 is tape value 0."""
        total = sum(weights)
        v = self.draw(total, label)
        acc = 0
        for i, w in enumerate(weights):
            acc += w
            if v < acc:
                return i
        return len(weights) - 1

    def randbytes(self, n: int, label: str = "") -> bytes:
        return bytes(self.draw(256, label) for _ in range(n))


class Quiescent(Exception):
    """Nothing is runnable and nothing is scheduled: the simulated system is dead-quiet."""


class Sim:
    def __init__(self, tape: Tape) -> None:
        self.tape = tape
        self._now = 0.0
        self.clock: Optional[Callable[[], float]] = None  # backend clock (trio)
        self.seq = 0
        self._hseq = 0
        self.heap: list = []
        self.log: List[tuple] = []
        self.faults: Counter = Counter()
        self.probes: Counter = Counter()
        self.fds: dict = {}
        self._next_fd = 1000
        self.on_heap_push: Optional[Callable[[float], None]] = None
        self.steps = 0
        self.notes: List[str] = []
        self.wall_offset = 1_700_000_000.0

    # --- time -----------------------------------------------------------------
    @property
    def now(self) -> float:
        if self.clock is not None:
            return self.clock()
        return self._now

    def wall(self) -> float:
        return self.wall_offset + self.now

    # --- heap -----------------------------------------------------------------
    def at(self, t: float, cb: Callable, *args: Any) -> None:
        self._hseq += 1
        heapq.heappush(self.heap, (t, self._hseq, cb, args))
        if self.on_heap_push is not None:
            self.on_heap_push(t)

    def after(self, dt: float, cb: Callable, *args: Any) -> None:
        self.at(self.now + dt, cb, *args)

    def next_time(self) -> Optional[float]:
        return self.heap[0][0] if self.heap else None

    def run_due(self) -> int:
        """Run every heap entry due at the current instant; returns how many ran."""
        n = 0
        now = self.now
        while self.heap and self.heap[0][0] <= now + 1e-12:
            _, _, cb, args = heapq.heappop(self.heap)
            cb(*args)
            n += 1
        return n

    # --- log ------------------------------------------------------------------
    def rec(self, kind: str, *data: Any) -> int:
        self.seq += 1
        self.log.append((self.seq, round(self.now, 9), kind) + data)
        return self.seq

    def new_fd(self, obj: Any) -> int:
        fd = self._next_fd
        self._next_fd += 1
        self.fds[fd] = obj
        return fd

    def digest(self) -> str:
        h = hashlib.sha256()
        for entry in self.log:
            h.update(repr(entry).encode())
            h.update(b"\n")
        return h.hexdigest()

    def fault(self, kind: str, n: int = 1) -> None:
        self.faults[kind] += n

    def probe(self, name: str, n: int = 1) -> None:
        self.probes[name] += n
