"""Deterministic simulation of hypercorn under a fake kernel (see /verif/DESIGN.md)."""
import os
import sys

REPO_SRC = os.environ.get("HYPERCORN_SRC", "/repo/src")


def use_repo_src() -> str:
    """Make `import hypercorn` resolve to the current working tree of /repo."""
    if sys.path[0] != REPO_SRC:
        sys.path.insert(0, REPO_SRC)
    import hypercorn

    path = os.path.dirname(os.path.abspath(hypercorn.__file__))
    want = os.path.join(os.path.abspath(REPO_SRC), "hypercorn")
    if path != want:
        raise RuntimeError(f"hypercorn imported from {path}, wanted {want}")
    return path
