"""Scripted ASGI applications: small programs interpreted per request, fully recorded."""
from __future__ import annotations

import copy
import threading
from typing import Any, Callable, Dict, List, Optional

from .core import Sim


class Instance:
    def __init__(self, index: int, tag: Optional[bytes], scope: dict, seq: int, now: float) -> None:
        self.index = index
        self.tag = tag
        self.scope = scope
        self.scope_snapshot = _snapshot_scope(scope)
        self.start_seq = seq
        self.start_time = now
        self.received: List[tuple] = []  # (seq, t, message)
        self.sends: List[list] = []  # [seq, t, message, outcome, done_seq, done_t]
        self.leftover: List[dict] = []  # put by the server but never read
        self.end: Optional[str] = None
        self.end_seq: Optional[int] = None
        self.end_time: Optional[float] = None
        self.thread_ids: List[int] = []
        self.program: Any = None
        self.notes: List[str] = []

    @property
    def type(self) -> str:
        return self.scope.get("type")

    def all_delivered(self) -> List[dict]:
        return [m for _, _, m in self.received] + list(self.leftover)

    def body(self) -> bytes:
        return b"".join(m.get("body", b"") for m in self.all_delivered() if m.get("type") == "http.request")


def _snapshot_scope(scope: dict) -> dict:
    snap = {}
    for key, value in scope.items():
        if key == "state":
            snap[key] = copy.deepcopy(dict(value))
        else:
            snap[key] = copy.deepcopy(value)
    return snap


class AppRaise(Exception):
    pass


class AppHost:
    """The ASGI callable given to the server; dispatches to programs by request tag."""

    def __init__(self, sim: Sim, worker: str) -> None:
        self.sim = sim
        self.worker = worker
        self.programs: Dict[bytes, list] = {}
        self.default_program: list = [("recv_all",), ("respond", 200, [], [b"ok"])]
        self.lifespan_program: list = [("lifespan_ok",)]
        self.instances: List[Instance] = []
        self.lifespan: Optional[Instance] = None
        self.loop_thread = threading.get_ident()
        self.on_instance: Optional[Callable[[Instance], None]] = None

    # -- runtime glue ----------------------------------------------------------------
    async def _sleep(self, dt: float) -> None:
        if self.worker == "asyncio":
            import asyncio

            await asyncio.sleep(dt)
        else:
            import trio

            await trio.sleep(dt)

    async def _hang(self) -> None:
        if self.worker == "asyncio":
            import asyncio

            await asyncio.get_event_loop().create_future()
        else:
            import trio

            await trio.sleep_forever()

    def _cancelled_types(self) -> tuple:
        if self.worker == "asyncio":
            import asyncio

            return (asyncio.CancelledError,)
        import trio

        return (trio.Cancelled,)

    # -- ASGI entry ---------------------------------------------------------------------
    async def __call__(self, scope: dict, receive: Callable, send: Callable) -> None:
        sim = self.sim
        if scope["type"] == "lifespan":
            inst = Instance(-1, None, scope, sim.rec("app.lifespan.start"), sim.now)
            inst.program = self.lifespan_program
            self.lifespan = inst
        else:
            tag = None
            for name, value in scope.get("headers", []):
                if name.lower() == b"x-tag":
                    tag = value
                    break
            index = len(self.instances)
            inst = Instance(index, tag, scope, sim.rec("app.start", index, scope["type"], tag), sim.now)
            inst.program = self.programs.get(tag, self.default_program)
            self.instances.append(inst)
            if self.on_instance is not None:
                self.on_instance(inst)
        inst._receive = receive
        inst.thread_ids.append(threading.get_ident())
        try:
            await self._interpret(inst, inst.program, receive, send)
            inst.end = "returned"
        except self._cancelled_types():
            inst.end = "cancelled"
            raise
        except BaseException as error:
            inst.end = "raised:" + type(error).__name__
            raise
        finally:
            inst.end_seq = sim.rec("app.end", inst.index, inst.end)
            inst.end_time = sim.now

    # -- interpreter ----------------------------------------------------------------------
    async def _recv(self, inst: Instance, receive: Callable) -> dict:
        message = await receive()
        seq = self.sim.rec("app.recv", inst.index, message.get("type"), _msg_size(message))
        inst.received.append((seq, self.sim.now, message))
        return message

    async def _send(self, inst: Instance, send: Callable, message: dict) -> Optional[BaseException]:
        seq = self.sim.rec("app.send", inst.index, message.get("type"), _msg_size(message))
        entry = [seq, self.sim.now, message, "pending", None, None]
        inst.sends.append(entry)
        try:
            await send(message)
        except self._cancelled_types():
            entry[3] = "cancelled"
            entry[4] = self.sim.rec("app.send.cancelled", inst.index)
            entry[5] = self.sim.now
            raise
        except BaseException as error:
            entry[3] = "raised:" + type(error).__name__
            entry[4] = self.sim.rec("app.send.raised", inst.index, type(error).__name__)
            entry[5] = self.sim.now
            return error
        entry[3] = "ok"
        entry[4] = self.sim.rec("app.send.ok", inst.index)
        entry[5] = self.sim.now
        return None

    async def _interpret(self, inst: Instance, program: list, receive: Callable, send: Callable) -> None:
        sim = self.sim
        disconnected = False
        body_done = False
        for step in program:
            op = step[0]
            if op == "recv":
                m = await self._recv(inst, receive)
                if m["type"] in ("http.disconnect", "websocket.disconnect"):
                    disconnected = True
                if m["type"] == "http.request" and not m.get("more_body"):
                    body_done = True
            elif op == "recv_all":
                while not disconnected and not body_done:
                    m = await self._recv(inst, receive)
                    if m["type"] in ("http.disconnect", "websocket.disconnect"):
                        disconnected = True
                    elif m["type"] == "http.request" and not m.get("more_body"):
                        body_done = True
                    if len(step) > 1 and step[1]:
                        await self._pause(step[1], inst)
            elif op == "wait_disconnect":
                while not disconnected:
                    m = await self._recv(inst, receive)
                    if m["type"] in ("http.disconnect", "websocket.disconnect"):
                        disconnected = True
            elif op == "send":
                error = await self._send(inst, send, step[1])
                if error is not None and not (len(step) > 2 and step[2] == "tolerate"):
                    raise error
            elif op == "respond":
                _, status, headers, chunks = step[:4]
                pause = step[4] if len(step) > 4 else None
                start = {"type": "http.response.start", "status": status, "headers": list(headers)}
                if len(step) > 5 and step[5] is not None:
                    start["trailers"] = True
                error = await self._send(inst, send, start)
                if error is not None:
                    raise error
                for i, chunk in enumerate(chunks):
                    if pause:
                        await self._pause(pause, inst)
                    more = i < len(chunks) - 1
                    error = await self._send(
                        inst, send, {"type": "http.response.body", "body": chunk, "more_body": more}
                    )
                    if error is not None:
                        raise error
                if not chunks:
                    error = await self._send(
                        inst, send, {"type": "http.response.body", "body": b"", "more_body": False}
                    )
                    if error is not None:
                        raise error
                if len(step) > 5 and step[5] is not None:
                    error = await self._send(
                        inst, send, {"type": "http.response.trailers", "headers": list(step[5])}
                    )
                    if error is not None:
                        raise error
            elif op == "stream_until_disconnect":
                # an event-stream style application: a chunk every dt, gives up (response unfinished) as soon as
                # it is told the client has gone, completes normally after n chunks otherwise
                _, n, dt = step
                error = await self._send(inst, send, {"type": "http.response.start", "status": 200, "headers": []})
                gone = False
                for i in range(n):
                    await self._send(inst, send, {"type": "http.response.body", "body": b"event-%d;" % i,
                                                  "more_body": True})
                    m = await self._recv_timeout(inst, receive, dt)
                    if m is not None and m["type"] == "http.disconnect":
                        gone = True
                        break
                if gone:
                    return
                await self._send(inst, send, {"type": "http.response.body", "body": b"", "more_body": False})
            elif op == "pause":
                await self._pause(step[1], inst)
            elif op == "raise":
                raise AppRaise(step[1] if len(step) > 1 else "boom")
            elif op == "raise_group":
                raise ExceptionGroup("app group", [AppRaise("boom"), ValueError("x")])
            elif op == "return":
                return
            elif op == "hang":
                await self._hang()
            elif op == "cancel":
                if self.worker == "asyncio":
                    import asyncio

                    raise asyncio.CancelledError()
                else:
                    raise AppRaise("cancel-as-raise")
            elif op == "set_state":
                inst.scope["state"][step[1]] = step[2]
            elif op == "lifespan_ok":
                await self._lifespan_ok(inst, receive, send)
            elif op == "call":
                await step[1](self, inst, receive, send)
            else:
                raise RuntimeError(f"unknown program step {op}")

    async def _recv_timeout(self, inst: Instance, receive: Callable, dt: float) -> Optional[dict]:
        if self.worker == "asyncio":
            import asyncio

            try:
                return await asyncio.wait_for(self._recv(inst, receive), dt)
            except asyncio.TimeoutError:
                return None
        import trio

        with trio.move_on_after(dt):
            return await self._recv(inst, receive)
        return None

    async def _pause(self, spec: Any, inst: Optional[Instance] = None) -> None:
        kind, amount = spec[0], spec[1]
        # a pause repeated per message stops after 60 repetitions (per instance, so that the behaviour of an
        # application does not depend on what other instances do) so that long bodies stay cheap
        holder = inst if inst is not None else self
        holder._pauses = getattr(holder, "_pauses", 0) + 1
        if holder._pauses > 60:
            return
        if kind == "yield":
            for _ in range(amount):
                await self._sleep(0)
        elif kind == "sleep":
            await self._sleep(amount)

    async def _lifespan_ok(self, inst: Instance, receive: Callable, send: Callable) -> None:
        while True:
            m = await self._recv(inst, receive)
            if m["type"] == "lifespan.startup":
                await self._send(inst, send, {"type": "lifespan.startup.complete"})
            elif m["type"] == "lifespan.shutdown":
                await self._send(inst, send, {"type": "lifespan.shutdown.complete"})
                return

    # -- after the run --------------------------------------------------------------------
    def drain_leftovers(self, peek: bool = False) -> None:
        """Collect messages the server delivered to a queue that no one read (peek: without consuming)."""
        for inst in self.instances:
            receive = getattr(inst, "_receive", None)
            owner = getattr(receive, "__self__", None)
            if owner is None:
                # the receive callable is a closure over the queue / channel
                for cell in getattr(receive, "__closure__", None) or ():
                    try:
                        obj = cell.cell_contents
                    except ValueError:
                        continue
                    if hasattr(obj, "get_nowait") or hasattr(obj, "_state"):
                        owner = obj
                        break
            if owner is None:
                continue
            try:
                if peek:
                    inst.leftover = []
                if peek and hasattr(owner, "_queue"):
                    inst.leftover.extend(list(owner._queue))
                elif hasattr(owner, "get_nowait"):
                    while True:
                        try:
                            inst.leftover.append(owner.get_nowait())
                        except Exception:
                            break
                elif hasattr(owner, "_state"):
                    # trio MemoryReceiveChannel: read the buffered data without a run loop
                    data = getattr(owner._state, "data", None)
                    if data is not None:
                        inst.leftover.extend(list(data))
            except Exception as error:  # pragma: no cover
                inst.notes.append(f"drain failed: {error!r}")


def _msg_size(message: dict) -> int:
    for key in ("body", "bytes"):
        value = message.get(key)
        if isinstance(value, (bytes, bytearray)):
            return len(value)
    text = message.get("text")
    if isinstance(text, str):
        return len(text)
    return 0
