"""WebSocket session building blocks shared by C10, C11 and the WebSocket parts of C03/C07."""
from __future__ import annotations

import base64
from typing import Any, Callable, Dict, List, Optional, Tuple

from .core import Tape
from .peers import ws as wsp
from .peers.h2 import H2Peer, H2WSClient
from .scen import Script
from .world import World


class WSSession:
    def __init__(self, carrier: str, tag: bytes) -> None:
        self.carrier = carrier  # "h1" | "h2"
        self.tag = tag
        self.script: Optional[Script] = None
        self.client: Any = None  # H1WSClient | H2WSClient
        self.peer: Optional[H2Peer] = None
        self.sid: Optional[int] = None
        self.key = b""
        self.deflater: Optional[wsp.Deflater] = None
        self.offered_deflate = False
        self.sent_messages: List[Tuple[str, Any]] = []  # complete messages sent, in order
        self.sent_pings: List[bytes] = []
        self.handshake_headers: List[Tuple[bytes, bytes]] = []
        self.flags: set = set()

    @property
    def ws(self) -> Optional[wsp.WSParser]:
        return self.client.ws if self.client is not None else None

    @property
    def accepted(self) -> bool:
        return self.ws is not None

    def handshake_status(self) -> Optional[int]:
        if self.carrier == "h1":
            r = self.client.response
            if r is None and self.client.http.responses:
                r = self.client.http.responses[0]
            return r.status if r is not None else None
        return self.client.status

    def negotiated_deflate(self) -> bool:
        return self.ws is not None and self.ws.deflate

    # -- sending ---------------------------------------------------------------------------
    def send_bytes(self, sc: Script, data: bytes) -> None:
        if self.carrier == "h1":
            sc.conn.client.send(data)
        else:
            self.peer.queue_upload(self.sid, data, end_stream=False)
            sc.flush()


def make_key(tape: Tape) -> bytes:
    return base64.b64encode(bytes(tape.draw(256, "ws.key") for _ in range(4)) + b"0123456789ab")


def fragment(tape: Tape, payload: bytes, max_frags: int = 4) -> List[bytes]:
    if len(payload) < 2:
        return [payload]
    k = tape.weighted([5, 3, 2, 1][:max_frags], "ws.nfrag")
    if k == 0:
        return [payload]
    pts = sorted({1 + tape.draw(len(payload) - 1, "ws.fragpt") for _ in range(k)})
    out = []
    prev = 0
    for p in pts:
        out.append(payload[prev:p])
        prev = p
    out.append(payload[prev:])
    return out


def message_frames(tape: Tape, sess: WSSession, kind: str, value: Any, *, compress: bool = False,
                   pings: bool = True, mask_from_tape: bool = True) -> bytes:
    """Serialise one message (possibly fragmented, compressed, with pings between fragments)."""
    payload = value.encode("utf-8") if kind == "text" else bytes(value)
    opcode = wsp.OP_TEXT if kind == "text" else wsp.OP_BIN
    rsv1 = False
    if compress and sess.deflater is not None:
        payload = sess.deflater.compress(payload)
        rsv1 = True
    parts = fragment(tape, payload)
    out = bytearray()
    for i, part in enumerate(parts):
        mask = bytes(tape.draw(256, "ws.mask") for _ in range(4)) if mask_from_tape else b"\x01\x02\x03\x04"
        out += wsp.frame(opcode if i == 0 else wsp.OP_CONT, part, fin=(i == len(parts) - 1),
                         rsv1=(rsv1 and i == 0), mask=mask)
        if pings and i < len(parts) - 1 and tape.chance(1, 3, "ws.pingbetween"):
            pp = b"p%d" % len(sess.sent_pings)
            sess.sent_pings.append(pp)
            out += wsp.frame(wsp.OP_PING, pp, mask=mask)
            if rsv1:
                # wsproto 1.3.2 finishes the inflate stream at any FIN frame, including a control
                # frame between the fragments of a compressed message (known finding F14)
                sess.flags.add("deflate-control-interleave")
    sess.sent_messages.append((kind, value))
    return bytes(out)


def build_ws_script(world: World, tape: Tape, sess: WSSession, path: bytes, ops: List[tuple],
                    setup: Optional[Callable] = None, *, subprotocols: Optional[List[bytes]] = None,
                    offer_deflate: bool = False, handshake_over: Optional[Dict[str, Any]] = None,
                    wait_accept: float = 20.0) -> Script:
    """ops: ("frames", bytes) ("sleep", dt) ("wait", pred, timeout) ("close", code|None, reason)
    ("fin",) ("rst",) ("tcpclose",) ("call", fn)"""
    sess.key = make_key(tape)
    sess.offered_deflate = offer_deflate
    ext = b"permessage-deflate; client_max_window_bits" if offer_deflate else None
    steps: List[tuple] = []
    over = dict(handshake_over or {})
    if sess.carrier == "h1":
        sess.client = wsp.H1WSClient()
        req = wsp.handshake_request(path, sess.key, tag=sess.tag, subprotocols=subprotocols,
                                    extensions=ext, **over)
        steps.append(("send", req))
    else:
        peer = H2Peer()
        sess.peer = peer
        sess.sid = 1
        peer.next_sid = 3
        sess.client = H2WSClient(peer, 1)
        steps.append(("send", peer.preface()))
        # RFC 8441: wait for the server's SETTINGS (ENABLE_CONNECT_PROTOCOL) first
        steps.append(("wait", lambda sc: peer.settings_frames > 0, 10.0))
        headers = [(b":method", over.get("method", b"CONNECT")), (b":protocol", b"websocket"),
                   (b":scheme", b"http"), (b":authority", over.get("host", b"example.test")), (b":path", path)]
        version = over.get("version", b"13")
        if version is not None:
            headers.append((b"sec-websocket-version", version))
        headers.append((b"x-tag", sess.tag))
        if subprotocols:
            headers.append((b"sec-websocket-protocol", b", ".join(subprotocols)))
        if ext:
            headers.append((b"sec-websocket-extensions", ext))
        for n, v in over.get("extra", []) or []:
            headers.append((n.lower(), v))
        sess.handshake_headers = headers

        def open_stream(sc: Script) -> None:
            sc.conn.client.send(peer.headers(1, headers, end_stream=False))

        steps.append(("call", open_stream))
    steps.append(("wait", lambda sc: sess.handshake_status() is not None, wait_accept))

    def after_accept(sc: Script) -> None:
        if sess.negotiated_deflate():
            nct = False
            sess.deflater = wsp.Deflater(no_context_takeover=nct)

    steps.append(("call", after_accept))
    for op in ops:
        kind = op[0]
        if kind == "frames":
            steps.append(("call", (lambda data: lambda sc: sess.send_bytes(sc, data() if callable(data) else data))(op[1])))
        elif kind == "close":
            code, reason = op[1], (op[2] if len(op) > 2 else b"")
            steps.append(("call", (lambda c, r: lambda sc: sess.send_bytes(
                sc, wsp.frame(wsp.OP_CLOSE, wsp.close_payload(c, r))))(code, reason)))
        elif kind == "tcpclose":
            steps.append(("close",))
        else:
            steps.append(op)
    script = Script(world, steps, sess.client, setup=setup, name=f"ws-{sess.tag.decode()}")
    sess.script = script
    return script


# ------------------------------------------------------------------------------------------------
# application side helpers (used through ("call", fn) program steps)

def app_ws_echo(accept_msg: Optional[dict] = None, first: Optional[List[tuple]] = None,
                close_after: Optional[int] = None, close_code: int = 1000) -> Callable:
    """accept, optionally send `first` messages, echo everything, optionally close after n messages."""

    async def prog(host: Any, inst: Any, receive: Callable, send: Callable) -> None:
        m = await host._recv(inst, receive)
        if m["type"] != "websocket.connect":
            return
        error = await host._send(inst, send, dict(accept_msg or {"type": "websocket.accept"}))
        if error is not None:
            raise error
        for kind, value in first or []:
            msg = {"type": "websocket.send", "text": value} if kind == "text" else {"type": "websocket.send", "bytes": value}
            error = await host._send(inst, send, msg)
            if error is not None:
                raise error
        n = 0
        while True:
            m = await host._recv(inst, receive)
            if m["type"] == "websocket.disconnect":
                return
            if m["type"] == "websocket.receive":
                n += 1
                if m.get("text") is not None:
                    out = {"type": "websocket.send", "text": m["text"]}
                else:
                    out = {"type": "websocket.send", "bytes": m["bytes"]}
                error = await host._send(inst, send, out)
                if error is not None:
                    raise error
                if close_after is not None and n >= close_after:
                    await host._send(inst, send, {"type": "websocket.close", "code": close_code})
                    # keep listening for the disconnect
                    while True:
                        m = await host._recv(inst, receive)
                        if m["type"] == "websocket.disconnect":
                            return

    return prog
