"""Seeded search driver: fan-out, determinism sample, shrinking, replay, evidence."""
from __future__ import annotations

import faulthandler
import hashlib
import importlib
import json
import multiprocessing
import os
import signal
import sys
import time
import traceback
from collections import Counter
from concurrent.futures import ProcessPoolExecutor
from dataclasses import dataclass, field
from typing import Any, Dict, List, Optional, Tuple

VERIF = os.path.dirname(os.path.dirname(os.path.abspath(__file__)))
# sensitivity / seeded-defect runs write their evidence and replays elsewhere
OUT_DIR = os.environ.get("HCSIM_OUT", VERIF)
PER_RUN_TIMEOUT = 60

REAL_STUB_TABLE = {
    "real": [
        "hypercorn worker_serve/Lifespan/WorkerContext/TCPServer/TaskGroup/ProtocolWrapper/"
        "H11Protocol/H2Protocol/HTTPStream/WSStream/WSGIWrapper/Config (from /repo/src)",
        "h11, h2, hpack, hyperframe, priority, wsproto inside the server",
        "asyncio tasks/TaskGroup/Queue/Event/wait_for/start_server/Server/StreamReader/"
        "StreamWriter/_SelectorSocketTransport; trio nurseries/channels/serve_listeners/"
        "SocketListener/SocketStream",
    ],
    "simulated": [
        "sockets and listeners (hcsim.net FakeSocket/FakeListener)",
        "selector readiness and event-loop clock (asyncio SimSelector / trio MockClock)",
        "wall clock read by hypercorn (time() in config/http_stream/ws_stream)",
        "randint for max_requests jitter",
        "trio scheduler PRNG (seeded shuffle of runnable batches)",
        "clients (own HTTP/1, HTTP/2 frame, WebSocket frame code)",
    ],
    "stub": ["logger (recording stub via Config._log)", "TLS/ALPN (stub object where used)"],
    "not_run": ["QUIC/H3, UDP server, statsd, reloader, multi-process master"],
}


@dataclass
class Violation:
    rule: str
    message: str
    key: Dict[str, Any] = field(default_factory=dict)


@dataclass
class Outcome:
    violations: List[Violation] = field(default_factory=list)
    digest: str = ""
    faults: Dict[str, int] = field(default_factory=dict)
    probes: Dict[str, int] = field(default_factory=dict)
    sim_time: float = 0.0
    signature: str = ""
    nontrivial: bool = False
    sample: Any = None
    notes: List[str] = field(default_factory=list)
    tape: List[int] = field(default_factory=list)
    labels: List[str] = field(default_factory=list)
    spans: List[tuple] = field(default_factory=list)
    steps: int = 0


def derive_seed(verif_seed: int, prop: str, index: int) -> int:
    h = hashlib.sha256(f"{verif_seed}:{prop}:{index}".encode()).digest()
    return int.from_bytes(h[:8], "big")


def log_signature(log: List[tuple]) -> str:
    h = hashlib.sha1()
    for entry in log:
        kind = entry[2]
        size = 0
        for item in entry[3:]:
            if isinstance(item, int) and not isinstance(item, bool):
                size = item
        bucket = 0 if size <= 0 else size.bit_length()
        h.update(f"{kind}:{bucket};".encode())
    return h.hexdigest()[:16]


def finish_outcome(world: Any, out: Outcome) -> Outcome:
    sim = world.sim
    out.digest = sim.digest()
    out.faults = dict(sim.faults)
    out.probes = dict(sim.probes)
    out.sim_time = float(sim.now)
    out.signature = log_signature(sim.log)
    out.nontrivial = bool(sim.faults) or bool(sim.probes)
    out.tape = list(sim.tape.record)
    out.labels = list(sim.tape.labels)
    out.spans = list(sim.tape.spans)
    out.steps = sim.steps
    if os.environ.get("HCSIM_DUMP_LOG"):
        for entry in sim.log:
            print("   ", entry)
    return out


class RunTimeout(Exception):
    pass


def _alarm(signum: int, frame: Any) -> None:
    raise RunTimeout()


def load_prop(prop_id: str) -> Any:
    return importlib.import_module(f"hcsim.props.{prop_id.lower()}")


def run_one(prop_id: str, params: dict, seed: Optional[int], tape_values: Optional[List[int]]) -> Outcome:
    from .core import Tape

    mod = load_prop(prop_id)
    tape = Tape(seed=seed, values=tape_values)
    return mod.run(tape, params)


def _run_chunk(prop_id: str, jobs: List[tuple]) -> List[tuple]:
    """Worker-process entry: returns compact per-job records."""
    results = []
    signal.signal(signal.SIGALRM, _alarm)
    for index, params, seed in jobs:
        faulthandler.dump_traceback_later(PER_RUN_TIMEOUT * 3, exit=True)
        signal.alarm(PER_RUN_TIMEOUT)
        try:
            out = run_one(prop_id, params, seed, None)
            rec = (
                index,
                "ok",
                [(v.rule, v.message, v.key) for v in out.violations],
                out.digest,
                out.faults,
                out.probes,
                out.sim_time,
                out.signature,
                out.nontrivial,
                out.sample,
                out.notes,
                out.tape if out.violations else None,
                out.steps,
            )
        except RunTimeout:
            rec = (index, "harness", f"run exceeded {PER_RUN_TIMEOUT}s wall", None)
        except BaseException:
            rec = (index, "harness", traceback.format_exc(), None)
        finally:
            signal.alarm(0)
            faulthandler.cancel_dump_traceback_later()
        results.append(rec)
    return results


# --- known findings ---------------------------------------------------------------------

def load_known() -> List[dict]:
    path = os.path.join(VERIF, "known_findings.json")
    if not os.path.exists(path):
        return []
    with open(path) as f:
        data = json.load(f)
    return data.get("findings", [])


def match_known(known: List[dict], prop: str, rule: str, key: dict) -> Optional[dict]:
    for entry in known:
        if entry.get("status") != "open":
            continue
        props = entry.get("properties") or [entry.get("property")]
        rules = entry.get("rules") or [entry.get("rule")]
        if prop not in props or rule not in rules:
            continue
        want = entry.get("match", {})
        if all(key.get(k) == v for k, v in want.items()):
            return entry
    return None


# --- shrinking -------------------------------------------------------------------------------

def shrink(prop_id: str, params: dict, tape: List[int], rule: str, key: dict,
           known: List[dict], max_runs: int = 400, max_wall: float = 90.0) -> Tuple[List[int], Outcome, int]:
    """Reduce a failing tape while the same rule (and same known/unknown class) still fires."""
    t0 = time.time()
    runs = 0
    target_known = match_known(known, prop_id, rule, key)

    def test(cand: List[int]) -> Optional[Outcome]:
        nonlocal runs
        if runs >= max_runs or time.time() - t0 > max_wall:
            return None
        runs += 1
        signal.alarm(PER_RUN_TIMEOUT)
        try:
            out = run_one(prop_id, params, None, cand)
        except BaseException:
            return None
        finally:
            signal.alarm(0)
        for v in out.violations:
            if v.rule == rule and match_known(known, prop_id, v.rule, v.key) is target_known:
                return out
        return None

    signal.signal(signal.SIGALRM, _alarm)
    best = list(tape)
    best_out = test(best)
    if best_out is None:
        return tape, None, runs  # type: ignore
    best = list(best_out.tape)
    improved = True
    while improved and runs < max_runs and time.time() - t0 <= max_wall:
        improved = False
        # 0. remove whole sub-structures (a connection, a request) and decrement their count
        progress = True
        while progress:
            progress = False
            for start, end, count_pos in sorted(best_out.spans, key=lambda sp: sp[0] - sp[1]):
                if end > len(best):
                    continue
                cand = best[:start] + best[end:]
                if count_pos is not None and count_pos < start and cand[count_pos] > 0:
                    cand[count_pos] -= 1
                elif count_pos is not None:
                    continue
                out = test(cand)
                if out is not None and len(out.tape) < len(best):
                    best, best_out, improved, progress = list(out.tape), out, True, True
                    break
        # 1. truncate
        n = len(best)
        cut = n // 2
        while cut >= 1:
            cand = best[: len(best) - cut]
            out = test(cand)
            if out is not None:
                best, best_out, improved = list(out.tape), out, True
            else:
                cut //= 2
        # 2. zero spans
        size = max(1, len(best) // 2)
        while size >= 1:
            i = 0
            while i < len(best):
                if any(best[i : i + size]):
                    cand = best[:i] + [0] * len(best[i : i + size]) + best[i + size :]
                    out = test(cand)
                    if out is not None:
                        best, best_out, improved = list(out.tape), out, True
                i += size
            size //= 2
        # 3. delete spans
        size = max(1, len(best) // 4)
        while size >= 1:
            i = 0
            while i < len(best):
                cand = best[:i] + best[i + size :]
                out = test(cand)
                if out is not None and len(out.tape) < len(best):
                    best, best_out, improved = list(out.tape), out, True
                else:
                    i += size
            size //= 2
        # 4. lower single values
        for i in range(len(best)):
            if i < len(best) and best[i] > 0:
                for v in (0, best[i] // 2, best[i] - 1):
                    if v < best[i]:
                        cand = best[:i] + [v] + best[i + 1 :]
                        out = test(cand)
                        if out is not None:
                            best, best_out, improved = list(out.tape), out, True
                            break
    return best, best_out, runs


# --- check ------------------------------------------------------------------------------------

def write_replay(prop_id: str, params: dict, seed: int, tape: List[int], labels: List[str],
                 v: Violation, digest: str, sample: Any, shrink_runs: int) -> str:
    os.makedirs(os.path.join(OUT_DIR, "replays"), exist_ok=True)
    path = os.path.join(OUT_DIR, "replays", f"{prop_id}-{seed}.json")
    with open(path, "w") as f:
        json.dump(
            {
                "property": prop_id,
                "rule": v.rule,
                "key": v.key,
                "message": v.message,
                "params": params,
                "seed": seed,
                "tape": tape,
                "labels": labels,
                "digest": digest,
                "scenario": sample,
                "shrink_runs": shrink_runs,
            },
            f,
            indent=1,
            default=repr,
        )
    return path


def replay(path: str) -> int:
    with open(path) as f:
        data = json.load(f)
    signal.signal(signal.SIGALRM, _alarm)
    signal.alarm(PER_RUN_TIMEOUT)
    out = run_one(data["property"], data["params"], None, data["tape"])
    signal.alarm(0)
    rules = [v.rule for v in out.violations]
    for v in out.violations:
        print(f"  rule={v.rule} key={v.key}\n    {v.message}")
    if data["rule"] in rules and out.digest == data["digest"]:
        print(f"VIOLATION property={data['property']} replay={path}")
        return 1
    if data["rule"] in rules:
        print(f"HARNESS-ERROR nondeterministic replay: digest {out.digest} != {data['digest']}")
        return 2
    print(f"replay of {path}: rule {data['rule']} did not fire (violations now: {rules})")
    return 0


def check(prop_id: str, tier: str, verif_seed: int, jobs_n: int, max_runs: Optional[int] = None,
          budget: Optional[float] = None) -> int:
    t0 = time.time()
    mod = load_prop(prop_id)
    plan = mod.plan(tier)
    replay_dir = os.path.join(OUT_DIR, "replays")
    if os.path.isdir(replay_dir):
        for name in os.listdir(replay_dir):
            if name.startswith(prop_id + "-"):
                os.unlink(os.path.join(replay_dir, name))
    total = max_runs if max_runs is not None else plan["runs"]
    budget = budget if budget is not None else plan.get("budget", 600.0)
    cases = list(plan.get("cases", []))
    known = load_known()

    jobs: List[tuple] = []
    for i, params in enumerate(cases):
        jobs.append((i, params, derive_seed(verif_seed, prop_id, i)))
    n_cases = len(jobs)
    for i in range(total):
        idx = n_cases + i
        params = mod.random_params(i, tier)
        jobs.append((idx, params, derive_seed(verif_seed, prop_id, idx)))
    det_n = min(len(jobs), plan.get("det_sample", 24))
    det_jobs = [(-(j[0] + 1), j[1], j[2]) for j in jobs[:det_n]]

    chunk = plan.get("chunk", 20)
    chunks = [jobs[i : i + chunk] for i in range(0, len(jobs), chunk)]
    det_chunks = [det_jobs[i : i + 5] for i in range(0, len(det_jobs), 5)]

    import multiprocessing

    ctx = multiprocessing.get_context("fork")
    results: Dict[int, tuple] = {}
    harness_errors: List[str] = []
    skipped = 0
    with ProcessPoolExecutor(max_workers=jobs_n, mp_context=ctx) as pool:
        futures = []
        # determinism duplicates go first so they land in other processes than the originals
        pending = det_chunks + chunks
        # submit lazily to respect the wall budget
        pos = 0
        inflight: list = []
        while pos < len(pending) or inflight:
            while pos < len(pending) and len(inflight) < jobs_n * 2:
                if time.time() - t0 > budget and pos >= len(det_chunks):
                    skipped += sum(len(c) for c in pending[pos:])
                    pos = len(pending)
                    break
                inflight.append(pool.submit(_run_chunk, prop_id, pending[pos]))
                pos += 1
            if not inflight:
                break
            fut = inflight.pop(0)
            try:
                recs = fut.result(timeout=PER_RUN_TIMEOUT * 30)
            except BaseException as error:
                harness_errors.append(f"worker process failed: {error!r}")
                break
            for rec in recs:
                if rec[1] == "harness":
                    harness_errors.append(f"job {rec[0]}: {rec[2]}")
                else:
                    results[rec[0]] = rec

    # determinism comparison
    det_pairs = 0
    det_mismatch = []
    for j in det_jobs:
        a = results.get(j[0])
        b = results.get(-(j[0]) - 1)
        if a is not None and b is not None:
            det_pairs += 1
            if a[3] != b[3]:
                det_mismatch.append((-(j[0]) - 1, j[2]))
    if det_mismatch:
        harness_errors.append(f"nondeterministic digests for jobs {det_mismatch[:5]}")

    # aggregate
    main = {k: v for k, v in results.items() if k >= 0}
    faults: Counter = Counter()
    probes: Counter = Counter()
    sim_time = 0.0
    signatures = set()
    samples = []
    steps = 0
    notes: Counter = Counter()
    viol_runs = []
    for idx in sorted(main):
        rec = main[idx]
        faults.update(rec[4])
        probes.update(rec[5])
        sim_time += rec[6]
        steps += rec[12]
        if rec[8]:
            signatures.add(rec[7])
        if rec[9] is not None and len(samples) < 5 and (idx % max(1, len(main) // 5) == 0):
            samples.append(rec[9])
        for n in rec[10]:
            notes[n] += 1
        if rec[2]:
            viol_runs.append(rec)
    if not samples:
        for idx in sorted(main)[:3]:
            if main[idx][9] is not None:
                samples.append(main[idx][9])

    # classify violations
    job_by_index = {j[0]: j for j in jobs}
    known_seen: Dict[str, dict] = {}
    known_counts: Counter = Counter()
    unknown_groups: Dict[tuple, tuple] = {}
    for rec in viol_runs:
        for rule, message, key in rec[2]:
            entry = match_known(known, prop_id, rule, key)
            if entry is not None:
                known_seen[entry["id"]] = entry
                known_counts[entry["id"]] += 1
            else:
                gkey = (rule, json.dumps(key, sort_keys=True, default=repr))
                if gkey not in unknown_groups:
                    unknown_groups[gkey] = (rec, rule, message, key)
    exit_code = 0
    violation_lines = []
    if len(unknown_groups) > 3:
        print(f"  {len(unknown_groups)} distinct violation groups (first 3 minimised):")
        for (rule, keyjson), (rec, _, message, _) in unknown_groups.items():
            print(f"    - {rule} {keyjson} e.g. job {rec[0]}: {message[:160]}")
    for gkey, (rec, rule, message, key) in list(unknown_groups.items())[:3]:
        job = job_by_index[rec[0]]
        tape_vals = rec[11] or []
        new_tape, out, sruns = shrink(prop_id, job[1], tape_vals, rule, key, known)
        v = Violation(rule, message, key)
        digest = rec[3]
        sample = rec[9]
        labels: List[str] = []
        if out is not None:
            same = [ov for ov in out.violations if ov.rule == rule and ov.key == key]
            anyrule = [ov for ov in out.violations
                       if ov.rule == rule and match_known(known, prop_id, ov.rule, ov.key) is None]
            if same or anyrule:
                v = (same or anyrule)[0]
            digest, sample, labels, tape_vals = out.digest, out.sample, out.labels, new_tape
        path = write_replay(prop_id, job[1], job[2], tape_vals, labels, v, digest, sample, sruns)
        print(f"  rule={v.rule} key={v.key}\n    {v.message}")
        violation_lines.append(f"VIOLATION property={prop_id} replay={path}")
        exit_code = 1
    for line in violation_lines:
        print(line)
    for eid, entry in sorted(known_seen.items()):
        print(f"KNOWN-FINDING: property={prop_id} {eid}: {entry['what']} (seen in {known_counts[eid]} runs)")

    wall = time.time() - t0
    evaluations = len(main)
    evidence = {
        "property_id": prop_id,
        "tier": tier,
        "seed": verif_seed,
        "level": "exploration",
        "coverage": {
            "evaluations": evaluations,
            "distinct_nontrivial": len(signatures),
            "rule": plan.get("rule", "")
            + " A run is non-trivial when at least one fault kind fired or a rare-path probe was hit; "
            "runs are distinct when the hash of their event-log shape (event kinds and size buckets in "
            "order) differs.",
            "samples": samples or ["(no sample recorded)"],
            "exhaustive": False,
            "enumerated_cases": n_cases,
            "enumerated_subspaces": plan.get("enumerated", []),
            "runs_per_hour": int(evaluations / wall * 3600) if wall > 0 else 0,
            "simulated_seconds": round(sim_time, 3),
            "loop_iterations": steps,
            "faults_fired": dict(sorted(faults.items())),
            "probes_hit": dict(sorted(probes.items())),
            "determinism_pairs_compared": det_pairs,
            "determinism_mismatches": len(det_mismatch),
            "known_findings_reobserved": {k: known_counts[k] for k in sorted(known_counts)},
            "advisory_notes": dict(notes.most_common(10)),
            "skipped_for_budget": skipped,
            "components": REAL_STUB_TABLE,
            "hypercorn_path": _hypercorn_path(),
            "repo_git": _repo_git(),
            "processes": jobs_n,
        },
        "assumptions": plan.get("assumptions", [])
        + [
            "h11/h2/hpack/hyperframe/priority/wsproto, asyncio and trio are trusted",
            "the fake kernel models Linux TCP semantics as asyncio/trio observe them",
            "asyncio ready-queue order is FIFO (its contract); trio batches are shuffled by a seeded PRNG",
        ],
        "wall_s": round(wall, 2),
        "violations": len(unknown_groups),
    }
    os.makedirs(os.path.join(OUT_DIR, "evidence"), exist_ok=True)
    with open(os.path.join(OUT_DIR, "evidence", f"{prop_id}.json"), "w") as f:
        json.dump(evidence, f, indent=1, default=repr)

    if harness_errors:
        for e in harness_errors[:5]:
            print("HARNESS-ERROR " + e.strip().replace("\n", "\n    "))
        if exit_code != 1:
            return 2  # a violation that was also found (and printed above) is the more useful verdict
    print(
        f"{prop_id} {tier}: {evaluations} runs ({n_cases} enumerated), "
        f"{len(signatures)} distinct non-trivial, {len(unknown_groups)} violation groups, "
        f"{len(known_seen)} known findings, {wall:.1f}s"
    )
    return exit_code


def _hypercorn_path() -> str:
    import hypercorn

    return os.path.dirname(os.path.abspath(hypercorn.__file__))


def _repo_git() -> str:
    import subprocess

    try:
        head = subprocess.run(["git", "-C", "/repo", "rev-parse", "--short", "HEAD"],
                              capture_output=True, text=True, timeout=10).stdout.strip()
        dirty = subprocess.run(["git", "-C", "/repo", "status", "--porcelain", "--", "src"],
                               capture_output=True, text=True, timeout=10).stdout.strip()
        return head + ("+dirty" if dirty else "")
    except Exception:
        return "unknown"


def _digest_chunk(prop_id: str, jobs: List[tuple]) -> List[tuple]:
    out = []
    for index, params, seed in jobs:
        try:
            o = run_one(prop_id, params, seed, None)
            out.append((index, o.digest, len(o.violations)))
        except BaseException as error:
            out.append((index, "HARNESS:" + type(error).__name__, -1))
    return out


def digests(prop_id: str, first: int, count: int, jobs_n: int) -> int:
    """Prints "<job index> <event-log digest> <violations>" for the seeded jobs first..first+count-1 of the quick
    plan (enumerated cases first, then seeded runs) - used by tools/determinism to compare interpreters."""
    mod = load_prop(prop_id)
    plan = mod.plan("quick")
    cases = list(plan.get("cases", []))
    seed = int(os.environ.get("VERIF_SEED", "0") or 0)
    jobs = []
    if first < 0:  # start a little before the seeded region: the last enumerated cases and then seeded runs
        first = max(0, len(cases) - count // 8)
    for idx in range(first, first + count):
        params = cases[idx] if idx < len(cases) else mod.random_params(idx - len(cases), "quick")
        jobs.append((idx, params, derive_seed(seed, prop_id, idx)))
    results: List[tuple] = []
    if jobs_n <= 1:
        results = _digest_chunk(prop_id, jobs)
    else:
        ctx = multiprocessing.get_context("fork")
        chunks = [jobs[i::jobs_n] for i in range(jobs_n)]
        with ProcessPoolExecutor(max_workers=jobs_n, mp_context=ctx) as pool:
            for part in pool.map(_digest_chunk, [prop_id] * len(chunks), chunks):
                results.extend(part)
    for index, digest, nviol in sorted(results):
        print(index, digest, nviol)
    return 0


def main(argv: List[str]) -> int:
    # ./check pins PYTHONHASHSEED=0; determinism is also tested unpinned (tools/determinism).
    if len(argv) >= 2 and argv[0] == "replay":
        return replay(argv[1])
    if len(argv) >= 4 and argv[0] == "digest":
        return digests(argv[1].upper(), int(argv[2]), int(argv[3]), int(os.environ.get("HCSIM_JOBS", "1")))
    if len(argv) < 2:
        print("usage: check <ID> quick|thorough [--runs N] [--budget S] [--jobs J] | check replay <file>")
        return 2
    prop_id, tier = argv[0].upper(), argv[1]
    tier = os.environ.get("VERIF_TIER", tier) if tier not in ("quick", "thorough") else tier
    seed = int(os.environ.get("VERIF_SEED", "0") or 0)
    jobs_n = int(os.environ.get("HCSIM_JOBS", "16"))
    runs = None
    budget = None
    args = argv[2:]
    while args:
        a = args.pop(0)
        if a == "--runs":
            runs = int(args.pop(0))
        elif a == "--budget":
            budget = float(args.pop(0))
        elif a == "--jobs":
            jobs_n = int(args.pop(0))
        elif a == "--seed":
            seed = int(args.pop(0))
    return check(prop_id, tier, seed, jobs_n, runs, budget)


if __name__ == "__main__":
    sys.exit(main(sys.argv[1:]))
