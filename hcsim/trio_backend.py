"""trio backend: real trio.run on a MockClock, sockets replaced by SimTrioSocket."""
from __future__ import annotations

import errno
import random
import socket as stdsocket
from typing import Any, Callable, Optional

import outcome
import trio
import trio._core._run as trio_run
import trio.socket as tsocket
from trio.testing import MockClock

from .core import Sim
from .net import FakeListener, FakeSocket


class SimTrioSocket(tsocket.SocketType):
    def __init__(self, fake: Any) -> None:
        super().__init__()
        self._fake = fake
        self._did_shut_wr = False
        self._parked: dict = {}  # kind -> task
        fake.wakers.append(self._wake)

    # -- plain accessors -----------------------------------------------------------
    @property
    def family(self):
        return self._fake.family

    @property
    def type(self):
        return self._fake.type

    @property
    def proto(self):
        return self._fake.proto

    @property
    def did_shutdown_SHUT_WR(self) -> bool:
        return self._did_shut_wr

    def fileno(self) -> int:
        return self._fake.fileno()

    def getsockname(self):
        return self._fake.getsockname()

    def getpeername(self):
        return self._fake.getpeername()

    def getsockopt(self, level, optname, buflen=None):
        return self._fake.getsockopt(level, optname)

    def setsockopt(self, level, optname, value, optlen=None):
        return None

    def listen(self, backlog: int = 100) -> None:
        self._fake.listen(backlog)

    def is_readable(self) -> bool:
        return self._fake.readable()

    def detach(self) -> int:
        return self._fake.fd

    def __enter__(self):
        return self

    def __exit__(self, *exc):
        self.close()

    # -- parking ---------------------------------------------------------------------
    def _ready(self, kind: str) -> bool:
        if self._fake._closed:
            return True
        if kind == "r":
            return self._fake.readable()
        return self._fake.writable()

    def _wake(self) -> None:
        for kind in list(self._parked):
            if self._ready(kind):
                task = self._parked.pop(kind)
                if self._fake._closed:
                    trio.lowlevel.reschedule(
                        task, outcome.Error(trio.ClosedResourceError("another task closed this fd"))
                    )
                else:
                    trio.lowlevel.reschedule(task)

    async def _park(self, kind: str) -> None:
        if kind in self._parked:
            raise trio.BusyResourceError("another task is already waiting on this socket")
        task = trio.lowlevel.current_task()
        self._parked[kind] = task

        def abort(_: Any) -> trio.lowlevel.Abort:
            if self._parked.get(kind) is task:
                del self._parked[kind]
            return trio.lowlevel.Abort.SUCCEEDED

        await trio.lowlevel.wait_task_rescheduled(abort)

    async def _nonblocking(self, kind: str, fn: Callable, *args: Any) -> Any:
        # Mirrors trio._socket._nonblocking_helper: a cancellation point before, a
        # schedule point after a synchronous success, parking when it would block.
        await trio.lowlevel.checkpoint_if_cancelled()
        try:
            result = fn(*args)
        except BlockingIOError:
            pass
        else:
            await trio.lowlevel.cancel_shielded_checkpoint()
            return result
        while True:
            await self._park(kind)
            try:
                return fn(*args)
            except BlockingIOError:
                pass

    # -- I/O -------------------------------------------------------------------------
    async def recv(self, bufsize: int, flags: int = 0) -> bytes:
        return await self._nonblocking("r", self._fake.recv, bufsize)

    async def send(self, data, flags: int = 0) -> int:
        return await self._nonblocking("w", self._fake.send, data)

    async def accept(self):
        sock, addr = await self._nonblocking("r", self._fake.accept)
        return SimTrioSocket(sock), addr

    async def wait_writable(self) -> None:
        if self._fake._closed:
            raise trio.ClosedResourceError
        if not self._fake.writable():
            await self._park("w")

    def shutdown(self, how: int) -> None:
        self._fake.shutdown(how)
        if how in (stdsocket.SHUT_WR, stdsocket.SHUT_RDWR):
            self._did_shut_wr = True

    def close(self) -> None:
        if not self._fake._closed:
            self._fake.close()  # wakes the parked tasks through self._wake


def _from_stdlib_socket(sock: Any) -> Any:
    if isinstance(sock, (FakeSocket, FakeListener)):
        return SimTrioSocket(sock)
    return _real_from_stdlib_socket(sock)


_real_from_stdlib_socket = tsocket.from_stdlib_socket


class _SchedRandom:
    """Stands in for trio's scheduler PRNG: seed 0 keeps creation order."""

    def __init__(self, seed: int) -> None:
        self.seed = seed
        self.rng = random.Random(seed)
        self.shuffles = 0

    def shuffle(self, batch: list) -> None:
        if self.seed and len(batch) > 1:
            self.rng.shuffle(batch)
            self.shuffles += 1

    def random(self) -> float:
        return self.rng.random()

    def uniform(self, a: float, b: float) -> float:
        return self.rng.uniform(a, b)


class Pump:
    """Drives the simulator heap from inside the trio run."""

    def __init__(self, sim: Sim) -> None:
        self.sim = sim
        self.kick = trio.Event()
        self.running = False
        self.stopped = False
        self.error: Optional[BaseException] = None

    def on_push(self, t: float) -> None:
        if not self.running:
            self.kick.set()

    async def run(self, on_error: Callable[[BaseException], None]) -> None:
        sim = self.sim
        sim.on_heap_push = self.on_push
        try:
            while not self.stopped:
                self.running = True
                try:
                    sim.run_due()
                except BaseException as error:  # DeadlineHit etc.
                    self.error = error
                    on_error(error)
                    return
                finally:
                    self.running = False
                nxt = sim.next_time()
                self.kick = trio.Event()
                if nxt is None:
                    await self.kick.wait()
                elif nxt > trio.current_time():
                    with trio.move_on_at(nxt):
                        await self.kick.wait()
                else:
                    await trio.lowlevel.checkpoint()
        finally:
            sim.on_heap_push = None


def run_trio_world(world: Any) -> None:
    from .world import DeadlineHit
    import hypercorn.trio.run as hc_run
    from hypercorn.config import Sockets

    sim = world.sim
    hc_run.randint = world._randint
    tsocket.from_stdlib_socket = _from_stdlib_socket
    trio.socket.from_stdlib_socket = _from_stdlib_socket
    sched_seed = sim.tape.draw(1 << 16, "trio.sched") if world.trio_shuffle else 0
    sched = _SchedRandom(sched_seed)
    trio_run._ALLOW_DETERMINISTIC_SCHEDULING = True
    trio_run._r = sched
    clock = MockClock(autojump_threshold=0)
    sockets = Sockets([], [world.listener] + world.extra_listeners, [])
    # trio_worker listens on the sockets it is given before serving (trio/run.py:127-131)
    world.listener.listen()
    for extra in world.extra_listeners:
        extra.listen()

    async def main() -> None:
        sim.clock = clock.current_time
        sim._now = 0.0
        event = trio.Event()
        world._trigger = event.set
        if world.trigger_at is not None:
            event.set()
        sim.at(world.deadline, world._hit_deadline, None)
        pump = Pump(sim)
        outcome_box: dict = {}
        async with trio.open_nursery() as outer:

            def on_error(error: BaseException) -> None:
                outcome_box["pump_error"] = error
                outer.cancel_scope.cancel()

            outer.start_soon(pump.run, on_error)
            try:
                await hc_run.worker_serve(
                    world.app_wrapper,
                    world.config,
                    sockets=sockets,
                    shutdown_trigger=event.wait,
                )
                if "pump_error" not in outcome_box:
                    world.result = "returned"
            except trio.Cancelled:
                raise
            except BaseException as error:
                if "pump_error" not in outcome_box:
                    world.result = "raised"
                    world.exception = error
            finally:
                world.returned_at = trio.current_time()
                pump.stopped = True
                outer.cancel_scope.cancel()
        error = outcome_box.get("pump_error")
        if error is not None:
            world.result = "deadline" if isinstance(error, DeadlineHit) else "harness"
            if world.result == "harness":
                world.exception = error

    try:
        trio.run(main, clock=clock)
    except BaseException as error:
        if world.result is None:
            world.result = "raised"
            world.exception = error
    finally:
        sim._now = clock.current_time()
        sim.clock = None
        tsocket.from_stdlib_socket = _real_from_stdlib_socket
        trio.socket.from_stdlib_socket = _real_from_stdlib_socket
    sim.rec("worker.end", world.result, type(world.exception).__name__)
    world.open_fds = sorted(sim.fds)
    world.leftover_tasks = []
    world.loop_exceptions = []
    world.trio_shuffles = sched.shuffles
