"""Scripted clients: sequential action lists run from the simulator heap."""
from __future__ import annotations

from typing import Any, Callable, List, Optional

from .net import Conn
from .world import World


class Script:
    """A client connection following a list of steps.

    Steps: ("send", bytes) ("sleep", dt) ("wait", predicate[, timeout]) ("fin",) ("rst",)
    ("close",) ("stall",) ("resume",) ("call", fn) ("trigger",)
    `predicate(script)` is re-evaluated whenever something arrives on the connection.
    """

    def __init__(self, world: World, steps: List[tuple], parser: Any = None,
                 setup: Optional[Callable[[Conn], None]] = None, name: str = "") -> None:
        self.world = world
        self.sim = world.sim
        self.steps = list(steps)
        self.parser = parser
        self.setup = setup
        self.name = name
        self.conn: Optional[Conn] = None
        self.pc = 0
        self.done = False
        self._waiting: Optional[Callable] = None
        self._wait_token = 0
        self.timeouts = 0
        self.marks: dict = {}
        self.on_bytes: Optional[Callable[[bytes], None]] = None
        self.hold_flush = False

    def start_at(self, t: float) -> "Script":
        self.sim.at(t, self._connect)
        return self

    # -- connection events ---------------------------------------------------------------
    def _connect(self) -> None:
        conn = Conn(self.sim, len(self.world.listener.conns))
        if self.setup is not None:
            self.setup(conn)
        self.conn = self.world.listener.connect(conn)
        client = self.conn.client
        client.on_data = self._on_data
        client.on_eof = self._on_eof
        client.on_rst = self._on_eof
        if client.refused:
            self.done = True
            return
        self._advance()

    def _on_data(self, data: bytes) -> None:
        if self.parser is not None:
            self.parser.feed(data)
            self.flush()
        if self.on_bytes is not None:
            self.on_bytes(data)
        self._poke()

    def _on_eof(self) -> None:
        if self.parser is not None and hasattr(self.parser, "eof"):
            self.parser.eof()
        self._poke()

    def flush(self) -> None:
        """Send whatever the protocol peer queued (acks, window updates, uploads)."""
        take = getattr(self.parser, "take_out", None)
        if self.hold_flush:
            return  # the client is still in the middle of writing its own opening bytes
        if take is not None:
            out = take()
            if out:
                self.conn.client.send(out)

    def _poke(self) -> None:
        if self._waiting is not None:
            if self._waiting(self) or self.ended:
                self._waiting = None
                self._wait_token += 1
                self._advance()

    @property
    def ended(self) -> bool:
        c = self.conn.client
        return c.eof_at is not None or c.rst_at is not None

    # -- interpreter ---------------------------------------------------------------------
    def _advance(self) -> None:
        client = self.conn.client
        while self.pc < len(self.steps):
            step = self.steps[self.pc]
            op = step[0]
            self.pc += 1
            if op == "send":
                client.send(step[1])
            elif op == "sleep":
                if step[1] > 0:
                    self.sim.after(step[1], self._advance)
                    return
            elif op == "wait":
                pred = step[1]
                if pred(self) or self.ended:
                    continue
                self._waiting = pred
                self._wait_token += 1
                if len(step) > 2 and step[2] is not None:
                    self.sim.after(step[2], self._wait_timeout, self._wait_token)
                return
            elif op == "fin":
                client.fin()
            elif op == "rst":
                client.rst()
            elif op == "close":
                client.close()
            elif op == "stall":
                client.stall()
            elif op == "resume":
                client.resume()
            elif op == "call":
                step[1](self)
                self.flush()
            elif op == "mark":
                self.marks[step[1]] = (self.sim.seq, self.sim.now)
            elif op == "trigger":
                self.world.trigger_shutdown()
            else:
                raise RuntimeError(f"unknown script step {op}")
        self.done = True

    def _wait_timeout(self, token: int) -> None:
        if self._waiting is not None and token == self._wait_token:
            self._waiting = None
            self.timeouts += 1
            self._advance()


def responses_at_least(n: int) -> Callable[[Script], bool]:
    def pred(script: Script) -> bool:
        p = script.parser
        return len(p.responses) >= n or p.error is not None

    return pred
