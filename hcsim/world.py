"""World: one simulated worker life cycle (config, listener, logger, patches, run)."""
from __future__ import annotations

import asyncio
import copy
from typing import Any, Callable, Dict, List, Optional

from . import use_repo_src
from .core import Quiescent, Sim, Tape
from .net import Conn, FakeListener

use_repo_src()

import hypercorn.config as hc_config  # noqa: E402
import hypercorn.protocol.http_stream as hc_http_stream  # noqa: E402
import hypercorn.protocol.ws_stream as hc_ws_stream  # noqa: E402
from hypercorn.app_wrappers import ASGIWrapper  # noqa: E402
from hypercorn.config import Config, Sockets  # noqa: E402


class RecLogger:
    """Recording logger installed through Config._log (the logger_class seam)."""

    def __init__(self, sim: Sim) -> None:
        self.sim = sim
        self.access_records: List[tuple] = []  # (seq, t, scope, response, request_time)
        self.records: List[tuple] = []  # (seq, t, level, message)

    async def access(self, request: Any, response: Any, request_time: float) -> None:
        seq = self.sim.rec(
            "log.access",
            request.get("type"),
            request.get("path"),
            None if response is None else response.get("status"),
        )
        self.access_records.append((seq, self.sim.now, request, response, request_time))

    def _add(self, level: str, message: str, args: tuple) -> None:
        try:
            text = message % args if args else message
        except Exception:
            text = message
        seq = self.sim.rec("log." + level, text)
        self.records.append((seq, self.sim.now, level, text))

    async def critical(self, message: str, *args: Any, **kwargs: Any) -> None:
        self._add("critical", message, args)

    async def error(self, message: str, *args: Any, **kwargs: Any) -> None:
        self._add("error", message, args)

    async def warning(self, message: str, *args: Any, **kwargs: Any) -> None:
        self._add("warning", message, args)

    async def info(self, message: str, *args: Any, **kwargs: Any) -> None:
        self._add("info", message, args)

    async def debug(self, message: str, *args: Any, **kwargs: Any) -> None:
        self._add("debug", message, args)

    async def exception(self, message: str, *args: Any, **kwargs: Any) -> None:
        import sys

        exc = sys.exc_info()[1]
        self._add("exception", message + " :: " + repr(exc), args)
        import os

        if os.environ.get("HCSIM_TRACE"):
            import traceback

            traceback.print_exc()

    async def log(self, level: int, message: str, *args: Any, **kwargs: Any) -> None:
        self._add("log%d" % level, message, args)

    def by_level(self, *levels: str) -> List[tuple]:
        return [r for r in self.records if r[2] in levels]


class World:
    current: Optional["World"] = None

    def __init__(self, tape: Tape, worker: str = "asyncio") -> None:
        self.handlers: Dict[int, list] = {}
        self.alpn: Optional[str] = None  # "h2" | "http/1.1" | "none" -> TLS stub in front of TCPServer
        self.reader_pushes_pending = 0
        self.reader_pushes_cancelled = 0
        self.reader_push_blocked_at_trigger = 0
        self.tape = tape
        self.worker = worker
        self.sim = Sim(tape)
        self.listener = FakeListener(self.sim)
        # further listening sockets (several binds), created by add_listener() before run()
        self.extra_listeners: list = []
        self.config = Config()
        self.logger = RecLogger(self.sim)
        self.config._log = self.logger  # type: ignore
        self.config.accesslog = "-"
        self.app: Optional[Callable] = None
        self.app_wrapper: Any = None
        self.result: Optional[str] = None  # "returned" | "raised:<repr>" | "quiescent" | "spin"
        self.exception: Optional[BaseException] = None
        self.returned_at: Optional[float] = None
        self.trigger_at: Optional[float] = None
        self.leftover_tasks: List[str] = []
        self.loop_exceptions: List[tuple] = []
        self.randint_value = 0
        self._trigger: Optional[Callable[[], None]] = None
        self.pre_listen = False
        self.deadline = 600.0
        self.trio_shuffle = True
        self.open_fds: list = []
        self.use_threads = False  # baton-passing worker threads (WSGI), see hcsim.threads
        self.thread_jobs: Dict[int, Any] = {}
        self.thread_delays: Callable[[], float] = lambda: 0.0

    # -- scenario helpers ----------------------------------------------------------
    def connect(self) -> Conn:
        return self.listener.connect()

    def add_listener(self) -> FakeListener:
        listener = FakeListener(self.sim)
        self.extra_listeners.append(listener)
        return listener

    def trigger_shutdown(self) -> None:
        if self.trigger_at is None:
            self.trigger_at = self.sim.now
            self.reader_push_blocked_at_trigger = self.reader_pushes_pending
            self.sim.rec("trigger")
            if self._trigger is not None:
                self._trigger()

    # -- patches ---------------------------------------------------------------------
    def _patch(self) -> None:
        wall = self.sim.wall
        hc_config.time = wall
        hc_http_stream.time = wall
        hc_ws_stream.time = wall
        self._probe_handlers()
        self._probe_reader_push()
        self._guard_priority_tree()
        self._tls_stub()

    def _tls_stub(self) -> None:
        """TLS/ALPN stub at the TCPServer seam (C13 only): the record layer is not simulated, the
        server only sees an ssl object reporting `self.alpn` as the negotiated protocol."""
        world = self
        if self.worker == "asyncio":
            import hypercorn.asyncio.run as run_mod
            import hypercorn.asyncio.tcp_server as tcp_mod

            real = tcp_mod.TCPServer

            class _SSLObject:
                def selected_alpn_protocol(self_) -> Optional[str]:
                    return None if world.alpn == "none" else world.alpn

            class _WriterProxy:
                def __init__(self_, writer: Any) -> None:
                    self_._writer = writer

                def get_extra_info(self_, name: str, default: Any = None) -> Any:
                    if name == "ssl_object":
                        return _SSLObject()
                    return self_._writer.get_extra_info(name, default)

                def __getattr__(self_, name: str) -> Any:
                    return getattr(self_._writer, name)

            def factory(app: Any, loop: Any, config: Any, context: Any, state: Any, reader: Any, writer: Any) -> Any:
                if world.alpn is not None:
                    writer = _WriterProxy(writer)
                return real(app, loop, config, context, state, reader, writer)

            run_mod.TCPServer = factory
        else:
            import hypercorn.trio.run as run_mod
            import hypercorn.trio.tcp_server as tcp_mod

            real = tcp_mod.TCPServer

            class _TLSStream:
                def __init__(self_, stream: Any) -> None:
                    self_.transport_stream = stream

                async def do_handshake(self_) -> None:
                    return None

                def selected_alpn_protocol(self_) -> Optional[str]:
                    return None if world.alpn == "none" else world.alpn

                async def send_all(self_, data: bytes) -> None:
                    await self_.transport_stream.send_all(data)

                async def receive_some(self_, max_bytes: Optional[int] = None) -> bytes:
                    return await self_.transport_stream.receive_some(max_bytes)

                async def send_eof(self_) -> None:
                    await self_.transport_stream.send_eof()

                async def aclose(self_) -> None:
                    await self_.transport_stream.aclose()

            def factory(app: Any, config: Any, context: Any, state: Any, stream: Any) -> Any:
                if world.alpn is not None:
                    stream = _TLSStream(stream)
                return real(app, config, context, state, stream)

            run_mod.TCPServer = factory

    def _guard_priority_tree(self) -> None:
        """Watchdog around the `priority` library (2.0.0): certain PRIORITY sequences (a stream made to depend on
        its own descendant, exclusively re-parented later) leave a cycle in its tree, and remove_stream() then
        loops for ever inside the library, freezing the whole event loop (known finding F47).  A simulated run
        cannot be allowed to hang, so the watchdog turns the endless loop into an exception and marks the run;
        it changes nothing on runs where the library terminates."""
        try:
            import priority.priority as pp

            if getattr(pp, "_hcsim_guarded", False):
                return
            orig_add = pp.Stream.add_child
            orig_remove = pp.PriorityTree.remove_stream
            state = {"n": 0}

            class PriorityTreeLoop(Exception):
                pass

            def add_child(self_: Any, child: Any) -> None:
                state["n"] += 1
                if state["n"] > 100000:
                    state["n"] = 0
                    w = World.current
                    if w is not None:
                        w.sim.probe("priority.tree_loop")
                    raise PriorityTreeLoop("priority.PriorityTree.remove_stream does not terminate (cyclic tree)")
                return orig_add(self_, child)

            def remove_stream(self_: Any, stream_id: int) -> None:
                state["n"] = 0
                return orig_remove(self_, stream_id)

            pp.Stream.add_child = add_child
            pp.PriorityTree.remove_stream = remove_stream
            pp._hcsim_guarded = True
        except Exception as error:  # pragma: no cover
            self.sim.notes.append(f"priority guard unavailable: {error!r}")

    def _probe_reader_push(self) -> None:
        """Observation only: count StreamBuffer.push calls made from the connection's reader task
        (pong / close replies) that never returned - the signature of known finding F21."""
        import sys as _sys

        try:
            import hypercorn.protocol.h2 as h2m

            orig = getattr(h2m.StreamBuffer, "_hcsim_orig_push", None) or h2m.StreamBuffer.push
            h2m.StreamBuffer._hcsim_orig_push = orig

            async def push(self_: Any, data: bytes, *args: Any, **kwargs: Any) -> None:
                w = World.current
                from_reader = False
                frame = _sys._getframe(1)
                depth = 0
                while frame is not None and depth < 40:
                    if frame.f_code.co_name == "_read_data":
                        from_reader = True
                        break
                    frame = frame.f_back
                    depth += 1
                if w is not None and from_reader:
                    w.reader_pushes_pending += 1
                try:
                    await orig(self_, data, *args, **kwargs)
                finally:
                    if w is not None and from_reader:
                        w.reader_pushes_pending -= 1
                        if getattr(w, "_run_over", False):
                            w.reader_pushes_cancelled += 1

            h2m.StreamBuffer.push = push
        except Exception as error:  # pragma: no cover
            self.sim.notes.append(f"reader push probe unavailable: {error!r}")

    def _probe_handlers(self) -> None:
        """Observation-only wrapper around TCPServer.run: handler start/end per connection."""
        world = self
        try:
            if self.worker == "asyncio":
                import hypercorn.asyncio.tcp_server as mod
            else:
                import hypercorn.trio.tcp_server as mod
            cls = mod.TCPServer
            orig = getattr(cls, "_hcsim_orig_run", None) or cls.run
            cls._hcsim_orig_run = orig

            async def run(self_: Any) -> None:
                cid = None
                try:
                    if hasattr(self_, "writer"):
                        cid = self_.writer.get_extra_info("socket")._sock.conn.id
                    else:
                        sock = getattr(self_.stream, "socket", None) or self_.stream.transport_stream.socket
                        cid = sock._fake.conn.id
                except Exception:
                    pass
                w = World.current
                if w is not None and cid is not None:
                    w.handlers[cid] = [w.sim.now, None]
                    w.sim.rec("handler.start", cid)
                try:
                    await orig(self_)
                finally:
                    if w is not None and cid is not None:
                        w.handlers[cid][1] = w.sim.now
                        w.sim.rec("handler.end", cid)

            cls.run = run
            World.current = world
        except Exception as error:  # pragma: no cover
            self.sim.notes.append(f"handler probe unavailable: {error!r}")

    def _randint(self, a: int, b: int) -> int:
        v = a + self.randint_value
        self.sim.rec("randint", a, b, v)
        return min(max(v, a), b)

    # -- run -------------------------------------------------------------------------
    def run(self, end_at: float) -> None:
        """Run the worker; the shutdown trigger fires at `end_at` unless fired earlier."""
        self._patch()
        self.sim.at(end_at, self.trigger_shutdown)
        if self.app_wrapper is None:
            self.app_wrapper = ASGIWrapper(self.app)
        undo = None
        try:
            if self.worker == "asyncio":
                self._run_asyncio()
            else:
                from .trio_backend import run_trio_world

                if self.use_threads:
                    from .threads import install_trio

                    undo = install_trio(self)
                run_trio_world(self)
        finally:
            if undo is not None:
                undo()
        self._settle()

    def _settle(self, horizon: float = 1.0) -> None:
        """After the worker has ended let what is still in flight towards the clients arrive."""
        import heapq

        sim = self.sim
        sim.clock = None
        self._run_over = True
        limit = sim._now + horizon
        guard = 0
        while sim.heap and sim.heap[0][0] <= limit and guard < 100000:
            t, _, cb, args = heapq.heappop(sim.heap)
            sim._now = max(sim._now, t)
            guard += 1
            try:
                cb(*args)
            except DeadlineHit:
                break
            except Exception as error:  # a client callback touching the dead runtime
                sim.notes.append(f"settle: {error!r}")

    def _run_asyncio(self) -> None:
        from . import aio
        import hypercorn.asyncio.run as hc_run

        hc_run.randint = self._randint
        sim = self.sim
        sockets = Sockets([], [self.listener] + self.extra_listeners, [])  # type: ignore
        if self.pre_listen:
            self.listener.listen()
            for extra in self.extra_listeners:
                extra.listen()

        async def main(loop: aio.SimLoop) -> None:
            if self.use_threads:
                from .threads import install_asyncio

                self._undo_threads = install_asyncio(self, loop)
            event = asyncio.Event()
            self._trigger = event.set
            if self.trigger_at is not None:
                event.set()
            sim.at(self.deadline, self._hit_deadline, loop)
            await hc_run.worker_serve(
                self.app_wrapper, self.config, sockets=sockets, shutdown_trigger=event.wait
            )

        self._main_task = None
        self._undo_threads = None
        try:
            aio.run_asyncio_world(self, main)
        finally:
            if self._undo_threads is not None:
                self._undo_threads()

    def _hit_deadline(self, loop: Any) -> None:
        self.sim.rec("deadline")
        self.sim.probe("deadline.hit")
        raise DeadlineHit()


class DeadlineHit(Exception):
    pass
