"""The simulated kernel: stream connections and listeners made of FakeSocket objects.

A connection has a server endpoint (a FakeSocket handed to the runtime under test, which
believes it is a non-blocking socket.socket) and a client endpoint driven by peer scripts
from the simulator heap.  All timing, segmentation, short writes and errors are decided
by the Sim's tape or by the scenario, never by the host kernel.
"""
from __future__ import annotations

import errno
import socket
from typing import Callable, List, Optional

from .core import Sim

SERVER_ADDR = ("127.0.0.1", 8000)


class ClientEnd:
    """Client side of a simulated TCP connection (driven from heap callbacks)."""

    def __init__(self, sim: Sim, conn: "Conn") -> None:
        self.sim = sim
        self.conn = conn
        self.reading = True
        self.pending = bytearray()  # arrived but unread (client stalled)
        self.received = bytearray()  # everything ever read by the client
        self.eof_at: Optional[float] = None
        self.rst_at: Optional[float] = None
        self.refused = False
        self.closed = False  # client fully closed its socket
        self.fin_sent = False
        self.on_data: Optional[Callable[[bytes], None]] = None
        self.on_eof: Optional[Callable[[], None]] = None
        self.on_rst: Optional[Callable[[], None]] = None
        self.sent = bytearray()
        self._next_arrival = 0.0
        self._fin_pending = False

    # -- actions ---------------------------------------------------------------
    def send(self, data: bytes, latency: Optional[float] = None) -> None:
        if not data or self.closed or self.fin_sent or self.rst_at is not None:
            return
        self.sent.extend(data)
        self.sim.rec("c.send", self.conn.id, len(data))
        self._deliver(self.conn.server._arrive, bytes(data), latency)

    def fin(self, latency: Optional[float] = None) -> None:
        if self.closed or self.fin_sent or self.rst_at is not None:
            return
        self.fin_sent = True
        self.sim.rec("c.fin", self.conn.id)
        self.sim.fault("net.fin")
        self._deliver(self.conn.server._arrive_fin, None, latency)

    def rst(self, latency: Optional[float] = None) -> None:
        if self.closed or self.rst_at is not None:
            return
        self.closed = True
        self.rst_at = self.sim.now
        self.sim.rec("c.rst", self.conn.id)
        self.sim.fault("net.rst")
        self._deliver(self.conn.server._arrive_rst, None, latency)

    def close(self, latency: Optional[float] = None) -> None:
        """Full close: FIN now, and anything that arrives later is answered by RST."""
        if self.closed:
            return
        if self.pending:
            # closing with unread data: the client's kernel resets the connection at once
            srv = self.conn.server
            srv._unacked -= len(self.pending)
            self.pending.clear()
            self.reading = True
            self.rst(latency)
            return
        if not self.fin_sent:
            self.fin(latency)
        self.closed = True
        self.reading = True
        self.pending.clear()

    def stall(self) -> None:
        self.reading = False
        self.sim.fault("net.stall")

    def resume(self) -> None:
        if self.reading:
            return
        self.reading = True
        if self.pending:
            data = bytes(self.pending)
            self.pending.clear()
            self._consume(data)
        if self._fin_pending:
            self._fin_pending = False
            self._arrive_fin()
        if getattr(self, "_rst_pending_client", False):
            self._rst_pending_client = False
            self._arrive_rst()

    # -- internals -------------------------------------------------------------
    def _deliver(self, fn: Callable, arg: Optional[bytes], latency: Optional[float]) -> None:
        lat = self.conn.c2s_latency if latency is None else latency
        t = max(self.sim.now + lat, self._next_arrival)
        self._next_arrival = t
        if arg is None:
            self.sim.at(t, fn)
        else:
            self.sim.at(t, fn, arg)

    def _arrive(self, data: bytes) -> None:
        srv = self.conn.server
        if self.closed:
            # Data for a closed socket: the client's kernel answers with RST.
            srv._unacked -= len(data)
            if not srv._rst_pending:
                srv._rst_pending = True
                self.sim.after(self.conn.c2s_latency, srv._arrive_rst)
            return
        if self.reading:
            self._consume(data)
        else:
            self.pending.extend(data)

    def _consume(self, data: bytes) -> None:
        srv = self.conn.server
        srv._unacked -= len(data)
        self.received.extend(data)
        self.sim.rec("c.recv", self.conn.id, len(data))
        srv._wake()
        if self.on_data is not None:
            self.on_data(data)

    def _arrive_fin(self) -> None:
        if not self.reading:
            self._fin_pending = True  # seen once the stalled client reads up to it
            return
        if self.eof_at is None and self.rst_at is None:
            self.eof_at = self.sim.now
            self.sim.rec("c.eof", self.conn.id)
            if self.on_eof is not None:
                self.on_eof()

    def _arrive_rst(self) -> None:
        if not self.reading and self.pending and not self.closed:
            # a stalled client notices the reset when it next reads (data already queued is still read:
            # the model does not discard it)
            self._rst_pending_client = True
            return
        if self.rst_at is None and self.eof_at is None:
            self.rst_at = self.sim.now
            self.sim.rec("c.rstrecv", self.conn.id)
            if self.on_rst is not None:
                self.on_rst()
        elif self.rst_at is None:
            self.rst_at = self.sim.now

    @property
    def server_closed_at(self) -> Optional[float]:
        """When the client saw the server end the connection (FIN or RST)."""
        if self.eof_at is not None:
            return self.eof_at
        return self.rst_at


class FakeSocket:
    """Server side endpoint; quacks like a non-blocking socket.socket."""

    family = socket.AF_INET
    type = socket.SOCK_STREAM
    proto = socket.IPPROTO_TCP

    def __init__(self, sim: Sim, conn: "Conn") -> None:
        self.sim = sim
        self.conn = conn
        self.fd = sim.new_fd(self)
        self._rx = bytearray()
        self._rx_total = 0  # bytes handed to recv() callers so far
        self._rx_fin = False
        self._rx_err: Optional[int] = None
        self._tx_err: Optional[int] = None
        self._unacked = 0
        self._shut_wr = False
        self._closed = False
        self._rst_pending = False
        self._send_calls = 0
        self._next_arrival = 0.0
        self.closed_at: Optional[float] = None
        self.fin_arrived_at: Optional[float] = None
        self.rst_arrived_at: Optional[float] = None
        self.sent_total = 0
        self.wakers: List[Callable[[], None]] = []
        # (seq, now, nbytes_after) of every successful send, for offset->seq mapping
        self.send_marks: List[tuple] = []

    # -- socket API --------------------------------------------------------------
    def fileno(self) -> int:
        return -1 if self._closed else self.fd

    def setblocking(self, flag: bool) -> None:
        pass

    def gettimeout(self) -> float:
        return 0.0

    def setsockopt(self, *args) -> None:
        pass

    def getsockopt(self, level: int, opt: int, *args) -> int:
        return 0

    def getsockname(self):
        return SERVER_ADDR

    def getpeername(self):
        return self.conn.client_addr

    def _check_open(self) -> None:
        if self._closed:
            raise OSError(errno.EBADF, "Bad file descriptor")

    def readable(self) -> bool:
        return (not self._closed) and (bool(self._rx) or self._rx_fin or self._rx_err is not None)

    def writable(self) -> bool:
        if self._closed:
            return False
        return self._tx_err is not None or self._unacked < self.conn.sndbuf

    def recv(self, n: int) -> bytes:
        self._check_open()
        if self._rx:
            k = min(n, len(self._rx))
            k = self.conn.recv_limit(self, k)
            data = bytes(self._rx[:k])
            del self._rx[:k]
            self._rx_total += k
            self.sim.rec("s.recv", self.conn.id, k)
            return data
        if self._rx_err is not None:
            err = self._rx_err
            self.sim.rec("s.recverr", self.conn.id, err)
            raise ConnectionResetError(err, "Connection reset by peer")
        if self._rx_fin:
            self.sim.rec("s.recv", self.conn.id, 0)
            return b""
        raise BlockingIOError(errno.EAGAIN, "Resource temporarily unavailable")

    def recv_into(self, buf) -> int:
        data = self.recv(len(buf))
        buf[: len(data)] = data
        return len(data)

    def send(self, data) -> int:
        self._check_open()
        n = len(data)
        self._send_calls += 1
        if self.conn.fail_send_at is not None and self._send_calls >= self.conn.fail_send_at:
            if self._tx_err is None:
                self._tx_err = self.conn.fail_send_errno
                self.sim.fault("net.write_err")
                # a TCP socket whose send() fails with EPIPE/ECONNRESET is dead in both directions
                if self.rst_arrived_at is None:
                    self.rst_arrived_at = self.sim.now
                self._rx_err = errno.ECONNRESET
                self._rx.clear()
                self._wake()
        if self._tx_err is not None:
            err = self._tx_err
            self.sim.rec("s.senderr", self.conn.id, err)
            if err == errno.ECONNRESET:
                raise ConnectionResetError(err, "Connection reset by peer")
            raise BrokenPipeError(err, "Broken pipe")
        if self._shut_wr:
            raise BrokenPipeError(errno.EPIPE, "Broken pipe")
        if n == 0:
            return 0
        room = self.conn.sndbuf - self._unacked
        if room <= 0:
            self.sim.probe("net.eagain")
            raise BlockingIOError(errno.EAGAIN, "Resource temporarily unavailable")
        k = min(n, room)
        k = self.conn.send_limit(self, k)
        chunk = bytes(data[:k])
        self._unacked += k
        self.sent_total += k
        seq = self.sim.rec("s.send", self.conn.id, k)
        self.send_marks.append((seq, self.sim.now, self.sent_total))
        self.conn.wire_out.extend(chunk)
        self._deliver(self.conn.client._arrive, chunk)
        return k

    def sendmsg(self, buffers, *args) -> int:
        data = b"".join(bytes(b) for b in buffers)
        return self.send(data)

    def shutdown(self, how: int) -> None:
        self._check_open()
        if how in (socket.SHUT_WR, socket.SHUT_RDWR) and not self._shut_wr:
            if self._tx_err is not None:
                raise OSError(errno.ENOTCONN, "Transport endpoint is not connected")
            self._shut_wr = True
            self.sim.rec("s.shutwr", self.conn.id)
            self._deliver(self.conn.client._arrive_fin, None)

    def close(self) -> None:
        if self._closed:
            return
        self._closed = True
        self.closed_at = self.sim.now
        self.sim.rec("s.close", self.conn.id)
        self.sim.fds.pop(self.fd, None)
        if self._rx and not self._shut_wr:
            # Closing with unread data: the kernel resets the connection.
            self._deliver(self.conn.client._arrive_rst, None)
        elif not self._shut_wr:
            self._shut_wr = True
            self._deliver(self.conn.client._arrive_fin, None)
        self._wake()

    def detach(self) -> int:
        return self.fd

    # -- internals -------------------------------------------------------------
    def _deliver(self, fn: Callable, arg: Optional[bytes]) -> None:
        t = max(self.sim.now + self.conn.s2c_latency, self._next_arrival)
        self._next_arrival = t
        if arg is None:
            self.sim.at(t, fn)
        else:
            self.sim.at(t, fn, arg)

    def _wake(self) -> None:
        for w in list(self.wakers):
            w()

    def _arrive(self, data: bytes) -> None:
        if self._closed:
            return
        self._rx.extend(data)
        self._wake()

    def _arrive_fin(self) -> None:
        self._rx_fin = True
        if self.fin_arrived_at is None:
            self.fin_arrived_at = self.sim.now
        self._wake()

    def _arrive_rst(self) -> None:
        if self.rst_arrived_at is None:
            self.rst_arrived_at = self.sim.now
        self._rx_err = errno.ECONNRESET
        self._tx_err = errno.ECONNRESET
        self._rx.clear()
        self._wake()


class Conn:
    def __init__(self, sim: Sim, cid: int) -> None:
        self.sim = sim
        self.id = cid
        self.client_addr = ("127.0.0.1", 40000 + cid)
        self.c2s_latency = 0.001
        self.s2c_latency = 0.001
        self.sndbuf = 256 * 1024
        self.seg_mode = 0  # 0 all, 1 tape-drawn prefix, 2 one byte, >2 fixed chunk size
        self.split_at: List[int] = []  # absolute c->s offsets where a recv must stop
        self.short_send = False
        self.fail_send_at: Optional[int] = None
        self.fail_send_errno = errno.EPIPE
        self.wire_out = bytearray()  # every byte the server ever wrote
        self.accepted_at: Optional[float] = None
        self.connected_at: Optional[float] = None
        self.server = FakeSocket(sim, self)
        self.client = ClientEnd(sim, self)

    def recv_limit(self, sock: FakeSocket, k: int) -> int:
        for off in self.split_at:
            if sock._rx_total < off < sock._rx_total + k:
                k = off - sock._rx_total
                self.sim.fault("net.segment")
                break
        if k <= 1 or self.seg_mode == 0:
            return k
        if self.seg_mode == 1:
            j = self.sim.tape.draw(k, "recv.split")
            if j:
                self.sim.fault("net.segment")
                return j
            return k
        if self.seg_mode == 2:
            # one byte per recv for the first 1500 bytes, then 97-byte reads
            self.sim.fault("net.segment")
            return 1 if sock._rx_total < 1500 else min(k, 97)
        if k > self.seg_mode:
            self.sim.fault("net.segment")
            return self.seg_mode
        return k

    def send_limit(self, sock: FakeSocket, k: int) -> int:
        if self.short_send and k > 1:
            j = self.sim.tape.draw(k, "send.short")
            if j:
                self.sim.fault("net.short_send")
                return j
        return k


class FakeListener:
    family = socket.AF_INET
    type = socket.SOCK_STREAM
    proto = socket.IPPROTO_TCP

    def __init__(self, sim: Sim) -> None:
        self.sim = sim
        self.fd = sim.new_fd(self)
        self.listening = False
        self._closed = False
        self.backlog: List[Conn] = []
        self.conns: List[Conn] = []
        self.accept_errors: List[int] = []
        self.closed_at: Optional[float] = None
        self.listen_at: Optional[float] = None
        self.wakers: List[Callable[[], None]] = []

    def fileno(self) -> int:
        return -1 if self._closed else self.fd

    def setblocking(self, flag: bool) -> None:
        pass

    def gettimeout(self) -> float:
        return 0.0

    def setsockopt(self, *args) -> None:
        pass

    def getsockopt(self, level: int, opt: int, *args) -> int:
        if opt == socket.SO_ACCEPTCONN:
            return 1 if self.listening else 0
        return 0

    def getsockname(self):
        return SERVER_ADDR

    def listen(self, backlog: int = 100) -> None:
        if not self.listening:
            self.listening = True
            self.listen_at = self.sim.now
            self.sim.rec("l.listen")

    def readable(self) -> bool:
        return (not self._closed) and self.listening and (
            bool(self.backlog) or bool(self.accept_errors)
        )

    def writable(self) -> bool:
        return False

    def accept(self):
        if self._closed:
            raise OSError(errno.EBADF, "Bad file descriptor")
        if self.accept_errors:
            err = self.accept_errors.pop(0)
            self.sim.fault("net.accept_err")
            if err == errno.ECONNABORTED:
                raise ConnectionAbortedError(err, "Software caused connection abort")
            raise OSError(err, "accept failed")
        if not self.backlog:
            raise BlockingIOError(errno.EAGAIN, "Resource temporarily unavailable")
        conn = self.backlog.pop(0)
        conn.accepted_at = self.sim.now
        self.sim.rec("l.accept", conn.id)
        return conn.server, conn.client_addr

    def close(self) -> None:
        if self._closed:
            return
        self._closed = True
        self.closed_at = self.sim.now
        self.sim.rec("l.close")
        self.sim.fds.pop(self.fd, None)
        for conn in self.backlog:
            # queued but never accepted: reset
            conn.server._closed = True
            self.sim.after(conn.s2c_latency, conn.client._arrive_rst)
        self.backlog.clear()
        for w in list(self.wakers):
            w()

    def detach(self) -> int:
        return self.fd

    # -- client side -------------------------------------------------------------
    def connect(self, conn: Optional[Conn] = None) -> Conn:
        """A client connects now.  Refused unless the listener is listening and open."""
        if conn is None:
            conn = Conn(self.sim, len(self.conns))
        self.conns.append(conn)
        conn.connected_at = self.sim.now
        if self._closed or not self.listening:
            conn.client.refused = True
            conn.client.closed = True
            conn.server._closed = True
            self.sim.fds.pop(conn.server.fd, None)
            self.sim.rec("c.refused", conn.id)
            return conn
        self.sim.rec("c.connect", conn.id)
        self.backlog.append(conn)
        for w in list(self.wakers):
            w()
        return conn
