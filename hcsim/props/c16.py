"""C16 - protocol behaviour does not depend on the worker class (differential oracle)."""
from __future__ import annotations

import random
from typing import Any, Dict, List, Optional, Tuple

from ..apps import AppHost
from ..core import Tape
from ..peers import h1 as h1peer
from ..peers import ws as wsp
from ..peers.h2 import H2Peer
from ..runner import Outcome, Violation, finish_outcome
from ..scen import Script
from ..session import Session, gen_session, make_opts
from ..world import World
from ..wsgen import WSSession, app_ws_echo, build_ws_script, message_frames
from . import c04 as c04mod

ID = "C16"
KINDS = ["http", "http-fault", "ws", "malformed"]
EPS = 1e-6
END = 12.0


def plan(tier: str) -> dict:
    cases = []
    for i in range(len(c04mod.H1_MALFORMED)):
        cases.append({"case": {"kind": "malformed", "h1": i}})
    for i in range(len(c04mod._h2_malformed(H2Peer()))):
        cases.append({"case": {"kind": "malformed", "h2": i}})
    return {
        "runs": 20000 if tier == "quick" else 700000,
        "budget": 150 if tier == "quick" else 900,
        "cases": cases,
        "chunk": 20,
        "rule": "Every tape builds one scenario (HTTP/1 keep-alive and HTTP/2 sessions from the C01-C03 generators with "
        "sequential requests, application scripts, bodies and response shapes; the same with a client FIN / RST / "
        "close placed after a quiescent pause at a tape-chosen point; WebSocket sessions over both carriers with "
        "echo, fragmentation and the closing orders; the malformed-input catalogue of C04) and executes it twice: on "
        "the asyncio worker and on the trio worker, with the same simulated kernel, latencies and scripts but "
        "independent schedules.  The two histories are reduced to a normal form (per application instance: scope, "
        "message sequence with adjacent body chunks merged, send outcomes; per connection: parsed statuses, headers "
        "without date, bodies, stream ends, GOAWAY, and the virtual instant at which the server closed) and compared.",
        "enumerated": ["the C04 catalogue of malformed HTTP/1 and HTTP/2 inputs on both workers"],
        "assumptions": ["scenarios are race-free: the client acts only after a pause in which the server has gone "
                        "quiescent, so the outcome is a function of the script under any legal schedule",
                        "which worker is right is not decided by this oracle; divergences that are consequences of "
                        "recorded known findings are classified by cause"],
    }


def random_params(i: int, tier: str) -> dict:
    return {"kind": KINDS[i % len(KINDS)] if i % 8 != 7 else "http"}


# --------------------------------------------------------------------------------------------------
def _build(tape: Tape, world: World, host: AppHost, kind: str, case: Optional[dict]) -> Dict[str, Any]:
    ctx: Dict[str, Any] = {"kind": kind}
    world.config.keep_alive_timeout = 2.0
    if kind in ("http", "http-fault"):
        opts = make_opts(seg=False, pipeline=0, stall=0, h2_windows=False, think=[0.05, 0.3], big=False,
                         trailers=True, early_hints=True, conn_headers=True, latencies=[0.001, 0.01],
                         # applications read the whole request before they answer: an answer that overtakes
                         # the request body is a race between the two by construction
                         read_modes=[1, 0, 0], respond_when=[1, 0], max_conns=2, max_reqs=3, h2_window=1 << 24,
                         # no pacing by the socket buffer: asyncio's transport accepts 64 KiB ahead of the
                         # socket, trio's send_all returns when the kernel has taken everything
                         sndbufs=[1 << 20], short_send=0)
        session = gen_session(tape, world, host, opts, customize=_sequential)
        for plan_ in session.conns:
            if kind == "http-fault" and tape.chance(2, 3, "fault.on"):
                steps = plan_.script.steps
                idx = tape.draw(len(steps) + 1, "fault.at")
                fk = tape.choice(["fin", "rst", "close"], "fault.kind")
                # quiescent pause, the fault, another pause
                plan_.script.steps = steps[:idx] + [("sleep", 0.2), (fk,), ("wait", lambda sc: False, 1.0)]
                plan_.fault = (fk, idx)
        ctx["session"] = session
    elif kind == "ws":
        carrier = ["h1", "h2"][tape.draw(2, "ws.carrier")]
        sess = WSSession(carrier, b"w0")
        first = [("text", "hi")] if tape.chance(1, 3, "ws.first") else []
        host.programs[b"w0"] = [("call", app_ws_echo(first=first))]
        nmsg = 1 + tape.draw(4, "ws.nmsg")
        ops: List[tuple] = []
        count = len(first)
        for _ in range(nmsg):
            k = tape.choice(["text", "bytes"], "ws.kind")
            size = tape.choice([0, 1, 5, 200, 3000], "ws.size")
            value: Any = ("x" * size) if k == "text" else bytes(range(256)) * (size // 256) + bytes(range(size % 256))
            frames = message_frames(tape, sess, k, value, compress=False, pings=False)
            ops.append(("frames", frames))
            count += 1
            ops.append(("wait", (lambda n: lambda sc: sess.ws is not None and len(sess.ws.messages) >= n)(count), 3.0))
            ops.append(("sleep", 0.05))
        closing = tape.choice(["client", "client-nocode", "tcp", "rst", "idle"], "ws.closing")
        if closing == "client":
            ops += [("close", tape.choice([1000, 1001, 4000], "ws.code"), b"bye"),
                    ("wait", lambda sc: sess.ws is not None and sess.ws.close is not None, 3.0), ("sleep", 0.1),
                    ("tcpclose",)]
        elif closing == "client-nocode":
            ops += [("close", None), ("wait", lambda sc: sess.ws is not None and sess.ws.close is not None, 3.0),
                    ("sleep", 0.1), ("tcpclose",)]
        elif closing == "tcp":
            ops += [("sleep", 0.1), ("tcpclose",)]
        elif closing == "rst":
            ops += [("sleep", 0.1), ("rst",)]
        else:
            ops += [("wait", lambda sc: sc.ended, 4.0)]
        script = build_ws_script(world, tape, sess, b"/ws?a=1", ops, None)
        script.start_at(0.1)
        ctx.update(ws=sess, closing=closing)
    else:
        if case is not None and "h2" in case:
            peer = H2Peer()
            name, make = c04mod._h2_malformed(peer)[case["h2"]]
            data, sink = make(), peer
        else:
            idx = case["h1"] if case is not None else tape.draw(len(c04mod.H1_MALFORMED), "mal.index")
            name, data = c04mod.H1_MALFORMED[idx]
            sink = h1peer.ResponseParser()
            sink.expect(b"GET")
            if case is None and tape.chance(1, 2, "mal.mutate"):
                data = c04mod._mutate(tape, c04mod._valid_h1(tape))
                name = "mutated-h1"
                for _ in range(4):
                    sink.expect(b"GET")
        ctx["name"] = name
        steps = [("send", data), ("wait", lambda sc: sc.ended, 3.0), ("fin",), ("wait", lambda sc: sc.ended, 3.0)]
        script = Script(world, steps, sink)
        script.hold_flush = not (case is not None and "h2" in case)
        script.start_at(0.1)
        ctx.update(script=script, sink=sink)
    return ctx


def _sequential(tape: Tape, plan_: Any, req: Any) -> None:
    """Race-free variant of a generated request: nothing to change in the request itself; the client
    script built by the generator already waits for each response (pipeline=0)."""
    return None


def _merge_received(msgs: List[dict]) -> List[tuple]:
    out: List[tuple] = []
    body = bytearray()
    for m in msgs:
        t = m.get("type")
        if t == "http.request":
            body += m.get("body", b"")
            if not m.get("more_body", False):
                out.append(("http.request", bytes(body), "end"))
                body = bytearray()
        else:
            if body:
                out.append(("http.request", bytes(body), "more"))
                body = bytearray()
            if t == "websocket.receive":
                out.append((t, m.get("text"), bytes(m["bytes"]) if m.get("bytes") is not None else None))
            elif t in ("websocket.disconnect",):
                out.append((t, m.get("code")))
            else:
                out.append((t,))
    if body:
        out.append(("http.request", bytes(body), "more"))
    return out


def _headers_nf(headers: Any) -> List[tuple]:
    return [(bytes(n).lower(), bytes(v)) for n, v in (headers or []) if bytes(n).lower() != b"date"]


def _normal_form(world: World, host: AppHost, ctx: Dict[str, Any]) -> Dict[str, Any]:
    nf: Dict[str, Any] = {"result": world.result if world.result == "returned" else f"{world.result}:{type(world.exception).__name__}"}
    insts = {}
    for inst in host.instances:
        sc = inst.scope
        scope = {k: sc.get(k) for k in ("type", "http_version", "method", "path", "raw_path", "query_string", "scheme",
                                        "root_path", "subprotocols")}
        scope["headers"] = [(bytes(n), bytes(v)) for n, v in sc.get("headers", [])]
        insts[(inst.tag or b"?", len([1 for k in insts if k[0] == (inst.tag or b"?")]))] = {
            "scope": scope,
            "received": _merge_received(inst.all_delivered()),
            "sends": [(e[2].get("type"), e[3] if not str(e[3]).startswith("cancel") else "cancelled") for e in inst.sends],
            "end": inst.end if not str(inst.end).startswith("cancel") else "cancelled",
        }
    nf["instances"] = insts
    conns: List[Any] = []
    kind = ctx["kind"]
    if kind in ("http", "http-fault"):
        session: Session = ctx["session"]
        for plan_ in session.conns:
            conn = plan_.script.conn
            entry: Dict[str, Any] = {"proto": plan_.proto}
            if plan_.proto == "h1":
                p = plan_.parser
                entry["responses"] = [(r.status, _headers_nf(r.headers), bytes(r.body), r.complete,
                                       [(s, _headers_nf(h)) for s, h in r.interim]) for r in p.responses]
                entry["partial"] = (p.current.status, len(p.current.body)) if p.current is not None else None
                entry["error"] = p.error
            else:
                peer = plan_.peer
                entry["streams"] = {sid: (st.status, _headers_nf(st.final_headers), bytes(st.data), st.ended,
                                          st.reset if (st.reset is None or st.reset >= 0) else "client",
                                          _headers_nf(st.trailers), [(_headers_nf(h)) for h in st.interim])
                                    for sid, st in sorted(peer.streams.items())}
                entry["goaway"] = peer.goaway
                entry["errors"] = list(peer.errors)
            entry["closed_at"] = _closed(conn)
            conns.append(entry)
    elif kind == "ws":
        sess: WSSession = ctx["ws"]
        conn = sess.script.conn
        ws = sess.ws
        conns.append({"status": sess.handshake_status(),
                      "messages": [m.as_tuple() for m in ws.messages] if ws else None,
                      "close": ws.close if ws else None, "pongs": list(ws.pongs) if ws else None,
                      "errors": list(ws.errors) if ws else None, "closed_at": _closed(conn)})
    else:
        script: Script = ctx["script"]
        sink = ctx["sink"]
        conn = script.conn
        if isinstance(sink, H2Peer):
            conns.append({"goaway": sink.goaway, "streams": {sid: (st.status, st.ended, st.reset)
                                                             for sid, st in sorted(sink.streams.items())},
                          "closed_at": _closed(conn)})
        else:
            conns.append({"responses": [(r.status, _headers_nf(r.headers), bytes(r.body), r.complete)
                                        for r in sink.responses], "error": sink.error,
                          "partial": sink.current is not None, "closed_at": _closed(conn)})
    nf["connections"] = conns
    return nf


def _closed(conn: Any) -> Optional[float]:
    if conn is None:
        return None
    if conn.client.closed:
        return "client-closed-first"  # nobody is left to observe when the server lets go of the socket
    t = conn.client.server_closed_at
    return None if t is None else round(t, 6)


def _snapshot(world: World, host: AppHost, ctx: Dict[str, Any], box: Dict[str, Any]) -> None:
    """The comparison covers the scenario, not the forced shutdown the harness performs afterwards: the
    normal form is taken just before the harness triggers it (whatever is still open then is reported as open)."""
    host.drain_leftovers(peek=True)
    box["nf"] = _normal_form(world, host, ctx)
    box["queue_full"] = _queue_full(world, host)


def run(tape: Tape, params: dict) -> Outcome:
    case = params.get("case")
    kind = case["kind"] if case else params["kind"]
    out = Outcome()
    # world A (asyncio) consumes the tape; world B (trio) replays the build-phase draws and gets an
    # independent tail for its own run-time choices (scheduler seed etc.)
    tail_seed = tape.draw(1 << 30, "b.tailseed")
    start = len(tape.record)
    world_a = World(tape, "asyncio")
    host_a = AppHost(world_a.sim, "asyncio")
    world_a.app = host_a
    ctx_a = _build(tape, world_a, host_a, kind, case)
    build = list(tape.record[start:])
    snap_a: Dict[str, Any] = {}
    world_a.sim.at(END - 0.1, _snapshot, world_a, host_a, ctx_a, snap_a)
    world_a.run(end_at=END)
    nf_a = snap_a.get("nf") or _normal_form(world_a, host_a, ctx_a)
    first = finish_outcome(world_a, Outcome())
    rng = random.Random(tail_seed)
    tape_b = Tape(values=build + [rng.randrange(1 << 30) for _ in range(4000)])
    world_b = World(tape_b, "trio")
    host_b = AppHost(world_b.sim, "trio")
    world_b.app = host_b
    ctx_b = _build(tape_b, world_b, host_b, kind, case)
    snap_b: Dict[str, Any] = {}
    world_b.sim.at(END - 0.1, _snapshot, world_b, host_b, ctx_b, snap_b)
    world_b.run(end_at=END)
    nf_b = snap_b.get("nf") or _normal_form(world_b, host_b, ctx_b)
    out.sample = {"kind": kind, "name": ctx_a.get("name"),
                  "session": ctx_a["session"].sample if "session" in ctx_a else None,
                  "closing": ctx_a.get("closing")}
    _compare(nf_a, nf_b, kind, ctx_a, snap_a.get("queue_full", False) or snap_b.get("queue_full", False), out)
    res = finish_outcome(world_b, out)
    # the digest covers both executions
    res.digest = first.digest + res.digest
    res.faults = {k: first.faults.get(k, 0) + res.faults.get(k, 0) for k in set(first.faults) | set(res.faults)}
    res.probes = {k: first.probes.get(k, 0) + res.probes.get(k, 0) for k in set(first.probes) | set(res.probes)}
    res.sim_time += first.sim_time
    res.steps += first.steps
    res.signature = first.signature + res.signature
    res.nontrivial = True
    res.tape, res.labels, res.spans = first.tape, first.labels, first.spans
    return res


def _queue_full(world: World, host: AppHost) -> bool:
    return any(len(i.leftover) >= world.config.max_app_queue_size for i in host.instances)


def _compare(a: Dict[str, Any], b: Dict[str, Any], kind: str, ctx: Dict[str, Any], queue_full: bool,
             out: Outcome) -> None:
    cause = "other"
    if queue_full:
        cause = "recv-queue-full"  # known finding F06 blocks one worker's handler at a schedule-dependent point

    def bad(rule: str, msg: str, **key: Any) -> None:
        out.violations.append(Violation(rule, msg, dict(key, kind=kind, cause=cause)))

    if a["result"] != b["result"]:
        bad("worker-result", f"worker_serve: asyncio {a['result']}, trio {b['result']}")
    ka, kb = set(a["instances"]), set(b["instances"])
    if ka != kb:
        bad("instances", f"application instances differ: only asyncio {sorted(ka - kb)[:3]}, only trio "
            f"{sorted(kb - ka)[:3]}")
    for key in sorted(ka & kb):
        ia, ib = a["instances"][key], b["instances"][key]
        for field in ("scope", "received", "sends", "end"):
            if ia[field] != ib[field]:
                bad("instance-" + field, f"instance {key[0]!r}: {field} differs\n      asyncio: "
                    f"{_short(ia[field])}\n      trio:    {_short(ib[field])}", field=field)
                break
    for i, (ca, cb) in enumerate(zip(a["connections"], b["connections"])):
        for field in sorted(set(ca) | set(cb)):
            va, vb = ca.get(field), cb.get(field)
            if field == "closed_at":
                if isinstance(va, str) or isinstance(vb, str):
                    if va != vb:
                        bad("close-time", f"connection {i}: closing order differs: {va} (asyncio) / {vb} (trio)")
                elif (va is None) != (vb is None) or (va is not None and abs(va - vb) > EPS):
                    bad("close-time", f"connection {i}: the server closed at {va} (asyncio) / {vb} (trio)")
                continue
            if va != vb:
                bad("client-view", f"connection {i}: {field} differs\n      asyncio: {_short(va)}\n      trio:    "
                    f"{_short(vb)}", field=field)
                break


def _short(v: Any) -> str:
    s = repr(v)
    return s if len(s) <= 400 else s[:400] + f"... ({len(s)} chars)"
