"""C12 - invalid application messages are rejected without corrupting the wire."""
from __future__ import annotations

import itertools
from typing import Any, Callable, Dict, List, Optional, Tuple

from ..apps import AppHost, Instance
from ..core import Tape
from ..peers import h1 as h1peer
from ..peers.h2 import H2Peer
from ..runner import Outcome, Violation, finish_outcome
from ..scen import Script, responses_at_least
from ..wsgen import WSSession, build_ws_script
from ..world import World

ID = "C12"

BAD_HEADERS = {
    "str-name": [("x-a", b"1")],
    "str-value": [(b"x-a", "1")],
    "pseudo": [(b":status", b"200")],
    "crlf-value": [(b"x-a", b"v\r\nx-evil: 1")],
    "lf-name": [(b"x\na", b"v")],
    "nul-value": [(b"x-a", b"v\x00w")],
    "cr-value": [(b"x-a", b"v\rw")],
}

# reduced HTTP alphabet (symbol -> message factory)
HTTP_SYMBOLS = ["start", "start-bad", "body-more", "body-final", "unknown", "start2", "hint", "push"]
HTTP_EXTRA = ["trailers", "start-trailers", "push-badpath", "body-str", "start-bad-status", "trailers-bad", "hint-bad",
              "push-bad"]
WS_SYMBOLS = ["accept", "send-text", "send-bytes", "close", "http-start", "http-body", "unknown", "send-nonstr"]
WS_EXTRA = ["accept-bad-header", "http-start-bad", "http-body-more", "send-text-bytes", "send-bytes-str", "send-empty"]
# guided enumeration: every payload-bearing symbol after a prefix that reaches each state of the automaton
HTTP_PREFIXES = [[], ["start"], ["start", "body-more"], ["start-trailers"], ["start-trailers", "body-final"],
                 ["start", "body-final"]]
WS_PREFIXES = [[], ["accept"], ["accept", "send-text"], ["http-start"], ["close"]]
HTTP_PAYLOAD = ["start-bad", "trailers-bad", "hint-bad", "push-bad", "push-badpath", "body-str", "start-bad-status"]
WS_PAYLOAD = ["accept-bad-header", "http-start-bad", "send-text-bytes", "send-bytes-str", "send-empty", "send-nonstr"]


def http_message(sym: str, bad_kind: str = "crlf-value") -> dict:
    if sym == "start":
        return {"type": "http.response.start", "status": 200, "headers": [(b"x-ok", b"1")]}
    if sym == "start2":
        return {"type": "http.response.start", "status": 201, "headers": []}
    if sym == "start-trailers":
        return {"type": "http.response.start", "status": 200, "headers": [], "trailers": True}
    if sym == "start-bad":
        return {"type": "http.response.start", "status": 200, "headers": list(BAD_HEADERS[bad_kind])}
    if sym == "start-bad-status":
        return {"type": "http.response.start", "status": "abc", "headers": []}
    if sym == "body-more":
        return {"type": "http.response.body", "body": b"data;", "more_body": True}
    if sym == "body-final":
        return {"type": "http.response.body", "body": b"end", "more_body": False}
    if sym == "body-str":
        return {"type": "http.response.body", "body": "text", "more_body": True}
    if sym == "unknown":
        return {"type": "http.response.bogus"}
    if sym == "hint":
        return {"type": "http.response.early_hint", "links": [b"</a>; rel=preload"]}
    if sym == "push":
        return {"type": "http.response.push", "path": "/pushed", "headers": [(b"x-p", b"1")]}
    if sym == "push-badpath":
        return {"type": "http.response.push", "path": b"/pushed", "headers": []}
    if sym == "trailers":
        return {"type": "http.response.trailers", "headers": [(b"x-t", b"1")]}
    if sym == "trailers-bad":
        return {"type": "http.response.trailers", "headers": list(BAD_HEADERS[bad_kind])}
    if sym == "hint-bad":
        return {"type": "http.response.early_hint", "links": [b"</a>; rel=preload\r\nx-evil: 1"]}
    if sym == "push-bad":
        return {"type": "http.response.push", "path": "/pushed", "headers": list(BAD_HEADERS[bad_kind])}
    raise KeyError(sym)


def ws_message(sym: str, bad_kind: str = "crlf-value") -> dict:
    if sym == "accept":
        return {"type": "websocket.accept"}
    if sym == "accept-bad-header":
        return {"type": "websocket.accept", "headers": list(BAD_HEADERS[bad_kind])}
    if sym == "send-text":
        return {"type": "websocket.send", "text": "hi"}
    if sym == "send-bytes":
        return {"type": "websocket.send", "bytes": b"\x00\x01"}
    if sym == "send-nonstr":
        return {"type": "websocket.send", "text": 123}
    if sym == "send-text-bytes":
        return {"type": "websocket.send", "text": b"raw"}
    if sym == "send-bytes-str":
        return {"type": "websocket.send", "bytes": "str"}
    if sym == "send-empty":
        return {"type": "websocket.send"}
    if sym == "close":
        return {"type": "websocket.close", "code": 1000}
    if sym == "http-start":
        return {"type": "websocket.http.response.start", "status": 401, "headers": [(b"x-d", b"1")]}
    if sym == "http-start-bad":
        return {"type": "websocket.http.response.start", "status": 401, "headers": list(BAD_HEADERS[bad_kind])}
    if sym == "http-body":
        return {"type": "websocket.http.response.body", "body": b"no", "more_body": False}
    if sym == "http-body-more":
        return {"type": "websocket.http.response.body", "body": b"n", "more_body": True}
    if sym == "unknown":
        return {"type": "websocket.bogus"}
    raise KeyError(sym)


# ---- reference automata of the ASGI send side -------------------------------------------------
def model_http(seq: List[str], version: str, te_trailers: bool) -> List[bool]:
    """For each symbol: True if the message is valid in the current state (must not raise)."""
    state = "REQUEST"
    trailers_flag = False
    out = []
    h2 = version == "2"
    for sym in seq:
        ok = False
        if state == "UNJUDGED":
            ok = None
        elif state == "CLOSED":
            ok = False
        elif sym in ("start", "start2", "start-trailers"):
            ok = state == "REQUEST"
            if ok:
                state = "RESPONSE"
                trailers_flag = sym == "start-trailers"
        elif sym in ("start-bad", "start-bad-status"):
            ok = False
        elif sym == "body-more":
            ok = state == "RESPONSE"
        elif sym == "body-final":
            ok = state == "RESPONSE"
            if ok:
                state = "TRAILERS" if (trailers_flag and h2) else "CLOSED"
                if trailers_flag and not h2:
                    state = "CLOSED-H1-TRAILERS"
        elif sym == "body-str":
            ok = False
        elif sym == "hint":
            ok = h2 and state == "REQUEST"
        elif sym == "push":
            ok = h2 and state in ("REQUEST", "RESPONSE")
        elif sym in ("push-badpath", "hint-bad", "push-bad"):
            ok = False
        elif sym == "trailers-bad":
            if h2 and state == "REQUEST":
                ok = None
                state = "UNJUDGED"
            elif h2 and state == "TRAILERS":
                # without "te: trailers" the message is dropped unread, which is neither demanded nor forbidden
                ok = False if te_trailers else None
                if not te_trailers:
                    state = "UNJUDGED"  # dropped unread, and the response is then complete
            else:
                ok = False
        elif sym == "trailers":
            if h2 and state == "REQUEST":
                # hypercorn deliberately answers a trailers-only response here (gRPC style); the ASGI
                # specification is silent, so neither acceptance nor rejection is judged
                ok = None
                state = "UNJUDGED"
            else:
                ok = h2 and state == "TRAILERS"
                if ok:
                    state = "CLOSED"
        elif sym == "unknown":
            ok = False
        out.append(ok)
    return out


def model_ws(seq: List[str]) -> List[bool]:
    state = "HANDSHAKE"
    out = []
    for sym in seq:
        ok = False
        if sym == "accept":
            ok = state == "HANDSHAKE"
            if ok:
                state = "CONNECTED"
        elif sym in ("send-text", "send-bytes"):
            ok = state == "CONNECTED"
        elif sym == "close":
            ok = state in ("HANDSHAKE", "CONNECTED")
            if ok:
                state = "CLOSED"
        elif sym == "http-start":
            ok = state == "HANDSHAKE"
            if ok:
                state = "RESPONSE-START"
        elif sym in ("http-body", "http-body-more"):
            ok = state in ("RESPONSE-START", "RESPONSE")
            if ok:
                state = "CLOSED" if sym == "http-body" else "RESPONSE"
        out.append(ok)
    return out


def plan(tier: str) -> dict:
    n = 4 if tier == "quick" else 5
    cases = []
    http_seqs = [list(s) for k in range(1, n + 1) for s in itertools.product(range(len(HTTP_SYMBOLS)), repeat=k)]
    ws_seqs = [list(s) for k in range(1, n + 1) for s in itertools.product(range(len(WS_SYMBOLS)), repeat=k)]
    # one run carries a batch of sequences (one request each) to amortise the worker life cycle
    batch = 24
    for worker in ("asyncio", "trio"):
        for carrier in ("h1", "h2"):
            for i in range(0, len(http_seqs), batch):
                cases.append({"worker": worker, "case": {"kind": "http", "carrier": carrier, "seqs": http_seqs[i:i + batch]}})
            for i in range(0, len(ws_seqs), batch):
                cases.append({"worker": worker, "case": {"kind": "ws", "carrier": carrier, "seqs": ws_seqs[i:i + batch]}})
    for worker in ("asyncio", "trio"):
        for carrier in ("h1", "h2"):
            for bad_kind in sorted(BAD_HEADERS):
                seqs = [pre + [sym] + ["body-final"] for pre in HTTP_PREFIXES for sym in HTTP_PAYLOAD
                        if "bad" in sym and sym != "start-bad-status" or bad_kind == "crlf-value"]
                cases.append({"worker": worker, "case": {"kind": "http", "carrier": carrier, "named": seqs,
                                                         "bad_kind": bad_kind}})
                seqs = [pre + [sym] + ["send-text"] for pre in WS_PREFIXES for sym in WS_PAYLOAD
                        if "bad" in sym or bad_kind == "crlf-value"]
                cases.append({"worker": worker, "case": {"kind": "ws", "carrier": carrier, "named": seqs,
                                                         "bad_kind": bad_kind}})
    return {
        "runs": 4000 if tier == "quick" else 500000,
        "budget": 150 if tier == "quick" else 900,
        "cases": cases,
        "chunk": 8,
        "rule": f"All sequences up to length {n} over the reduced ASGI send alphabet ({len(HTTP_SYMBOLS)} HTTP symbols, "
        f"{len(WS_SYMBOLS)} WebSocket symbols) on HTTP/1.1, HTTP/2 and WebSocket over both carriers are enumerated "
        "(24 sequences per simulated connection life cycle); seeded runs add longer sequences, the extended "
        "alphabet (trailers, bad payload kinds for every header position) and a client FIN/RST at a tape-chosen "
        "point. Every message is judged against a reference automaton of the ASGI specification; the server's "
        "socket output is compared before and after each rejected call.",
        "enumerated": [f"{len(http_seqs)} HTTP and {len(ws_seqs)} WebSocket sequences x 2 carriers x 2 workers",
                       "every payload-bearing symbol (bad response/trailer/push/hint/accept/denial headers, wrong body and "
                       "text/bytes types) x 7 bad-header kinds after a prefix reaching every state x 2 carriers x 2 workers"],
        "assumptions": ["the enumeration, not the schedule, decides most of this property (DESIGN 5/C12)"],
    }


def random_params(i: int, tier: str) -> dict:
    return {"worker": "asyncio" if i % 2 == 0 else "trio"}


def _seq_program(kind: str, seq: List[str], bad_kind: str, results: Dict[bytes, list], tag: bytes) -> Callable:
    async def prog(host: Any, inst: Any, receive: Callable, send: Callable) -> None:
        world = host.world
        first = await host._recv(inst, receive)
        await host._sleep(0.02)  # let the connection's opening traffic (SETTINGS, ACKs) settle
        rec = []
        results[tag] = rec
        for sym in seq:
            msg = http_message(sym, bad_kind) if kind == "http" else ws_message(sym, bad_kind)
            conn = _conn_of(world, inst)
            before = len(conn.wire_out) if conn is not None else -1
            error = await host._send(inst, send, msg)
            await host._sleep(0.01)
            after = len(conn.wire_out) if conn is not None else -1
            rec.append((sym, None if error is None else type(error).__name__, before, after))

    return prog


def _conn_of(world: World, inst: Instance) -> Any:
    client = inst.scope.get("client")
    if not client:
        return None
    for conn in world.listener.conns:
        if conn.client_addr[1] == client[1]:
            return conn
    return None


def run(tape: Tape, params: dict) -> Outcome:
    case = params.get("case")
    enumerated = case is not None
    if enumerated:
        tape = Tape(values=[])
    world = World(tape, params["worker"])
    sim = world.sim
    host = AppHost(sim, world.worker)
    host.world = world  # type: ignore
    world.app = host
    world.config.keep_alive_timeout = 2.0
    out = Outcome()
    results: Dict[bytes, list] = {}
    plans: List[Dict[str, Any]] = []
    closure: Optional[str] = None
    if enumerated:
        kind, carrier = case["kind"], case["carrier"]
        symbols = HTTP_SYMBOLS if kind == "http" else WS_SYMBOLS
        if "named" in case:
            seqs = [list(x) for x in case["named"]]
        else:
            seqs = [[symbols[i] for i in x] for x in case["seqs"]]
        bad_kind = case.get("bad_kind", "crlf-value")
        te = True
    else:
        kind = ["http", "ws"][tape.weighted([3, 2], "kind")]
        carrier = ["h1", "h2"][tape.draw(2, "carrier")]
        symbols = (HTTP_SYMBOLS + HTTP_EXTRA) if kind == "http" else (WS_SYMBOLS + WS_EXTRA)
        nseq = 1 + tape.draw(6, "nseq")
        seqs = []
        for _ in range(nseq):
            n = 1 + tape.draw(8, "seq.len")
            seqs.append([symbols[tape.draw(len(symbols), "seq.sym")] for _ in range(n)])
        bad_kind = tape.choice(sorted(BAD_HEADERS), "bad.kind")
        te = tape.chance(1, 2, "te")
        if tape.chance(1, 4, "closure"):
            closure = tape.choice(["fin", "rst"], "closure.kind")
    scripts: List[Any] = []
    t0 = 0.1
    if kind == "http":
        if carrier == "h1":
            # one connection per sequence (an invalid sequence may legitimately end the connection)
            for k, seq in enumerate(seqs):
                tag = b"q%d" % k
                host.programs[tag] = [("call", _seq_program("http", seq, bad_kind, results, tag))]
                parser = h1peer.ResponseParser()
                parser.expect(b"GET")
                hdr = b"TE: trailers\r\n" if te else b""
                steps: List[tuple] = [("send", b"GET /" + tag + b" HTTP/1.1\r\nHost: example.test\r\nx-tag: " + tag + b"\r\n" + hdr + b"\r\n")]
                if closure and k == 0:
                    steps += [("sleep", tape.choice([0.005, 0.015, 0.03], "closure.at")), (closure,)]
                steps.append(("wait", lambda sc: sc.ended, 4.0))
                s = Script(world, steps, parser)
                s.start_at(t0 + 0.001 * k)
                plans.append({"tag": tag, "seq": seq, "script": s, "version": "1.1", "closure": closure if k == 0 else None})
        else:
            # one connection per sequence so that the byte ledger of a rejected call is not
            # polluted by sibling streams
            for k, seq in enumerate(seqs):
                tag = b"q%d" % k
                peer = H2Peer()
                sid = peer.new_stream()
                host.programs[tag] = [("call", _seq_program("http", seq, bad_kind, results, tag))]

                def open_one(sc: Script, peer: H2Peer = peer, sid: int = sid, tag: bytes = tag) -> None:
                    hdrs = [(b":method", b"GET"), (b":scheme", b"http"), (b":authority", b"example.test"),
                            (b":path", b"/" + tag), (b"x-tag", tag)]
                    if te:
                        hdrs.append((b"te", b"trailers"))
                    sc.conn.client.send(peer.headers(sid, hdrs, end_stream=True))

                steps = [("send", peer.preface()), ("call", open_one)]
                if closure and k == 0:
                    steps += [("sleep", tape.choice([0.005, 0.015, 0.03], "closure.at")), (closure,)]
                steps.append(("wait", lambda sc: sc.ended, 4.0))
                s = Script(world, steps, peer)
                s.start_at(t0 + 0.001 * k)
                plans.append({"tag": tag, "seq": seq, "script": s, "version": "2", "peer": peer, "sid": sid,
                              "closure": closure if k == 0 else None})
    else:
        for k, seq in enumerate(seqs):
            tag = b"q%d" % k
            host.programs[tag] = [("call", _seq_program("ws", seq, bad_kind, results, tag))]
            sess = WSSession(carrier, tag)
            ops: List[tuple] = []
            if closure and k == 0:
                ops += [("sleep", tape.choice([0.005, 0.015, 0.03], "closure.at")), (closure,)]
            ops.append(("wait", lambda sc: sc.ended, 4.0))
            script = build_ws_script(world, tape, sess, b"/" + tag, ops, None, wait_accept=1.0)
            script.start_at(t0 + 0.001 * k)
            plans.append({"tag": tag, "seq": seq, "script": script, "sess": sess, "closure": closure if k == 0 else None})
    world.run(end_at=8.0)
    host.drain_leftovers()
    out.sample = {"worker": world.worker, "kind": kind, "carrier": carrier, "bad_kind": bad_kind, "closure": closure,
                  "sequences": seqs[:6], "n_sequences": len(seqs), "enumerated": enumerated}
    _check(world, host, kind, carrier, plans, results, te, bad_kind, out)
    return finish_outcome(world, out)


def _check(world: World, host: AppHost, kind: str, carrier: str, plans: List[Dict[str, Any]],
           results: Dict[bytes, list], te: bool, bad_kind: str, out: Outcome) -> None:
    ctx: Dict[str, Any] = {"after_http_start": False}

    def bad(rule: str, msg: str, **key: Any) -> None:
        out.violations.append(Violation(rule, msg, dict(key, worker=world.worker, kind=kind, carrier=carrier,
                                                        after_http_start=ctx["after_http_start"])))

    if world.result != "returned":
        bad("internal-error", f"worker_serve ended with {world.result}: {world.exception!r}")
    if world.loop_exceptions:
        bad("internal-error", f"event-loop exception handler called: {world.loop_exceptions[:1]}")
    for plan in plans:
        tag, seq = plan["tag"], plan["seq"]
        rec = results.get(tag)
        if rec is None:
            continue
        expect = model_http(seq, plan.get("version", "1.1"), te) if kind == "http" else model_ws(seq)
        closed = plan.get("closure") is not None
        inst = next((i for i in host.instances if i.tag == tag), None)
        disc_seq = None
        if inst is not None:
            for seq_no, _, m in inst.received:
                if m.get("type", "").endswith("disconnect"):
                    disc_seq = seq_no
        for idx, ((sym, error, before, after), ok) in enumerate(zip(rec, expect)):
            # known finding F26: websocket.http.response.start leaves the stream in the handshake state
            ctx["after_http_start"] = kind == "ws" and any(x.startswith("http-start") for x in seq[:idx + 1])
            if ok is None:
                continue
            if closed:
                # after closure valid messages must not raise and nothing can reach the wire (C03); the
                # rejection of invalid ones is not demanded any more.  Only judged while the model is in
                # sync, i.e. as long as every earlier message of the sequence was valid.
                if not all(e for e in expect[:idx] if e is not None):
                    continue
                if ok and error is not None and error not in ("Cancelled", "CancelledError"):
                    bad("valid-raises-after-close", f"{tag!r} {seq}: valid message #{idx} {sym} raised {error} on a "
                        f"connection that was being closed", sym=sym)
                continue
            if ok and error is not None:
                bad("valid-raises", f"{tag!r} {seq}: message #{idx} {sym} is valid in this state but raised {error}",
                    sym=sym)
            if not ok:
                if error is None:
                    bad("invalid-accepted", f"{tag!r} {seq}: message #{idx} {sym} is invalid in this state but was "
                        f"accepted silently", sym=sym, bad=(bad_kind if "bad" in sym else None))
                if after != before and before >= 0:
                    bad("invalid-on-wire", f"{tag!r} {seq}: rejected/invalid message #{idx} {sym} put "
                        f"{after - before} bytes on the wire", sym=sym, bad=(bad_kind if "bad" in sym else None))
        ctx["after_http_start"] = False
        # wire hygiene
        if kind == "http" and carrier == "h1":
            parser = plan["script"].parser
            if parser.error:
                bad("wire-wellformed", f"{tag!r} {seq}: response stream does not parse: {parser.error}",
                    bad=(bad_kind if any("bad" in s for s in seq) else None))
            finals = len(parser.responses) + (1 if parser.current is not None else 0)
            if finals > 1:
                bad("one-final-head", f"{tag!r} {seq}: {finals} final response heads for one request")
            for r in parser.responses + ([parser.current] if parser.current else []):
                _check_header_bytes(r.headers, tag, seq, bad)
        elif kind == "http":
            peer: H2Peer = plan["peer"]
            st = peer.streams.get(plan["sid"])
            if peer.errors:
                bad("wire-wellformed", f"{tag!r} {seq}: HTTP/2 parse errors {peer.errors[:1]}")
            if st is not None:
                finals = [b for b in st.header_blocks if any(n == b":status" and v.isdigit() and int(v) >= 200 for n, v in b)]
                if len(finals) > 1:
                    bad("one-final-head", f"{tag!r} {seq}: {len(finals)} final response heads on one stream")
                for block in st.header_blocks:
                    _check_header_bytes(block, tag, seq, bad)
        else:
            sess: WSSession = plan["sess"]
            if carrier == "h1":
                http = sess.client.http
                if http.error:
                    bad("wire-wellformed", f"{tag!r} {seq}: handshake response does not parse: {http.error}",
                        bad=(bad_kind if any("bad" in s for s in seq) else None))
                for r in http.responses:
                    _check_header_bytes(r.headers, tag, seq, bad)
            else:
                st = sess.peer.streams.get(1)
                if st is not None:
                    for block in st.header_blocks:
                        _check_header_bytes(block, tag, seq, bad)
            if sess.ws is not None and sess.ws.errors:
                bad("wire-wellformed", f"{tag!r} {seq}: websocket frame errors {sess.ws.errors[:1]}")


def _check_header_bytes(headers: List[tuple], tag: bytes, seq: list, bad: Any) -> None:
    for n, v in headers:
        for ch in (b"\r", b"\n", b"\x00"):
            if ch in bytes(n) or ch in bytes(v):
                bad("control-bytes-on-wire", f"{tag!r} {seq}: header {bytes(n)!r}: {bytes(v)!r} with CR/LF/NUL "
                    f"reached the wire", ch=repr(ch))
                return
