"""C04 - no client input causes an internal error; HTTP/2 faults stay on their stream."""
from __future__ import annotations

import struct
from typing import Any, Callable, Dict, List, Optional, Tuple

import hyperframe.frame as hf

from ..apps import AppHost
from ..core import Tape
from ..peers import h1 as h1peer
from ..peers import ws as wsp
from ..peers.h2 import H2Peer
from ..runner import Outcome, Violation, finish_outcome
from ..scen import Script, responses_at_least
from ..world import World

ID = "C04"
MAGIC = b"PRI * HTTP/2.0\r\n\r\nSM\r\n\r\n"


class Sink:
    """Keeps what the server wrote; no protocol knowledge."""

    def __init__(self) -> None:
        self.data = bytearray()
        self.eof_seen = False

    def feed(self, data: bytes) -> None:
        self.data += data

    def eof(self) -> None:
        self.eof_seen = True


# --------------------------------------------------------------------------------------------------
# catalogue (d): deliberately malformed inputs with the outcome the property names
H1_MALFORMED: List[Tuple[str, bytes]] = [
    ("no-target", b"GET\r\n\r\n"),
    ("bad-version", b"GET / HTTP/1.x\r\nHost: a\r\n\r\n"),
    ("lowercase-proto", b"GET / http/1.1\r\nHost: a\r\n\r\n"),
    ("header-no-colon", b"GET / HTTP/1.1\r\nHost a\r\n\r\n"),
    ("space-before-colon", b"GET / HTTP/1.1\r\nHost : a\r\n\r\n"),
    ("leading-fold", b"GET / HTTP/1.1\r\n Host: a\r\n\r\n"),
    ("nul-in-value", b"GET / HTTP/1.1\r\nHost: a\r\nx-a: b\x00c\r\n\r\n"),
    ("bad-content-length", b"POST / HTTP/1.1\r\nHost: a\r\nContent-Length: abc\r\n\r\n"),
    ("negative-content-length", b"POST / HTTP/1.1\r\nHost: a\r\nContent-Length: -1\r\n\r\n"),
    ("conflicting-content-length", b"POST / HTTP/1.1\r\nHost: a\r\nContent-Length: 3\r\nContent-Length: 4\r\n\r\nabc"),
    ("bad-chunk-size", b"POST / HTTP/1.1\r\nHost: a\r\nx-tag: body\r\nTransfer-Encoding: chunked\r\n\r\nzz\r\nabc\r\n0\r\n\r\n"),
    ("unknown-transfer-coding", b"POST / HTTP/1.1\r\nHost: a\r\nTransfer-Encoding: gzip\r\n\r\nabc"),
    ("no-host-11", b"GET / HTTP/1.1\r\n\r\n"),
    ("two-hosts", b"GET / HTTP/1.1\r\nHost: a\r\nHost: b\r\n\r\n"),
    ("binary-junk", b"\x16\x03\x01\x02\x00\x01\x00\x01\xfc\x03\x03" + bytes(range(40)) + b"\r\n\r\n"),
    ("bare-lf-request-line-junk", b"\x00\x00\x00GET / HTTP/1.1\r\nHost: a\r\n\r\n"),
]


# requests h11 accepts (obs-text is legal in field values) but that are unusual enough to have tripped decoders
_WS = b"GET /ws HTTP/1.1\r\nHost: example.test\r\nx-tag: ws\r\nUpgrade: websocket\r\nSec-WebSocket-Key: dGhlIHNhbXBsZSBub25jZQ==\r\nSec-WebSocket-Version: 13\r\n"
H1_UNUSUAL: List[Tuple[str, bytes]] = [
    ("ws-connection-obs-text", _WS + b"Connection: \xa0Upgrade\r\n\r\n"),
    ("ws-connection-obs-text-token", _WS + b"Connection: Upgrade, \xe9\r\n\r\n"),
    ("ws-protocol-obs-text", _WS + b"Connection: Upgrade\r\nSec-WebSocket-Protocol: ch\xe4t\r\n\r\n"),
    ("ws-extensions-obs-text", _WS + b"Connection: Upgrade\r\nSec-WebSocket-Extensions: permessage-deflate; x=\xff\r\n\r\n"),
    ("ws-upgrade-obs-text", _WS.replace(b"Upgrade: websocket", b"Upgrade: websocket\xff") + b"Connection: Upgrade\r\n\r\n"),
    ("ws-version-obs-text", _WS.replace(b"Version: 13", b"Version: 1\xb3") + b"Connection: Upgrade\r\n\r\n"),
    ("ws-key-obs-text", _WS.replace(b"dGhlIHNhbXBsZSBub25jZQ==", b"dGhl\xffHNhbXBsZSBub25jZQ==") + b"Connection: Upgrade\r\n\r\n"),
    ("host-obs-text", b"GET / HTTP/1.1\r\nHost: ex\xe4mple.test\r\n\r\n"),
    ("header-obs-text", b"GET / HTTP/1.1\r\nHost: example.test\r\nx-note: caf\xe9 \xff\xfe\r\n\r\n"),
    ("connection-obs-text", b"GET / HTTP/1.1\r\nHost: example.test\r\nConnection: keep-alive, \xe9\r\n\r\n"),
    ("upgrade-obs-text", b"GET / HTTP/1.1\r\nHost: example.test\r\nConnection: Upgrade\r\nUpgrade: h2c\xff\r\n\r\n"),
    ("http2-settings-obs-text", b"GET / HTTP/1.1\r\nHost: example.test\r\nConnection: Upgrade, HTTP2-Settings\r\nUpgrade: h2c\r\n"
                                b"HTTP2-Settings: \xff\xfe\r\n\r\n"),
    ("http2-settings-bad-base64", b"GET / HTTP/1.1\r\nHost: example.test\r\nConnection: Upgrade, HTTP2-Settings\r\nUpgrade: h2c\r\n"
                                  b"HTTP2-Settings: abc\r\n\r\n"),
    ("http2-settings-not-a-payload", b"GET / HTTP/1.1\r\nHost: example.test\r\nConnection: Upgrade, HTTP2-Settings\r\n"
                                     b"Upgrade: h2c\r\nHTTP2-Settings: abcd\r\n\r\n"),
    ("content-type-obs-text", b"POST / HTTP/1.1\r\nHost: example.test\r\nContent-Type: text/pl\xe4in\r\nContent-Length: 2\r\n\r\nhi"),
    ("percent-junk-target", b"GET /%ff%fe/%zz?%=% HTTP/1.1\r\nHost: example.test\r\n\r\n"),
]


def _frame(ftype: int, flags: int, sid: int, payload: bytes, length: Optional[int] = None) -> bytes:
    n = len(payload) if length is None else length
    return struct.pack(">I", n)[1:] + bytes([ftype, flags]) + struct.pack(">I", sid & 0x7FFFFFFF) + payload


def _h2_malformed(peer: H2Peer) -> List[Tuple[str, Callable[[], bytes]]]:
    hdrs = [(b":method", b"GET"), (b":scheme", b"http"), (b":authority", b"example.test"), (b":path", b"/x")]
    return [
        ("bad-preface", lambda: b"PRI * HTTP/2.0\r\n\r\nXX\r\n\r\n" + hf.SettingsFrame(0).serialize()),
        ("preface-without-settings", lambda: MAGIC + peer.headers(1, hdrs, end_stream=True)),
        ("headers-on-stream-0", lambda: peer.preface() + _frame(1, 0x5, 0, b"\x82\x86\x84")),
        ("data-on-idle-stream", lambda: peer.preface() + _frame(0, 0x1, 1, b"abc")),
        ("even-stream-id", lambda: peer.preface() + peer.headers(2, hdrs, end_stream=True)),
        ("decreasing-stream-id", lambda: peer.preface() + peer.headers(5, hdrs, end_stream=True)
         + peer.headers(3, hdrs, end_stream=True)),
        ("window-update-zero", lambda: peer.preface() + _frame(8, 0, 0, struct.pack(">I", 0))),
        ("window-overflow", lambda: peer.preface() + _frame(8, 0, 0, struct.pack(">I", 0x7FFFFFFF))),
        ("settings-ack-with-payload", lambda: peer.preface() + _frame(4, 0x1, 0, b"\x00\x03\x00\x00\x00\x64")),
        ("settings-bad-length", lambda: peer.preface() + _frame(4, 0, 0, b"\x00\x03\x00\x00\x00")),
        ("settings-enable-push-2", lambda: peer.preface() + _frame(4, 0, 0, b"\x00\x02\x00\x00\x00\x02")),
        ("settings-on-stream", lambda: peer.preface() + _frame(4, 0, 1, b"")),
        ("ping-bad-length", lambda: peer.preface() + _frame(6, 0, 0, b"1234")),
        ("continuation-without-headers", lambda: peer.preface() + _frame(9, 0x4, 1, b"\x82")),
        ("interleaved-in-header-block", lambda: peer.preface() + _frame(1, 0x0, 1, b"\x82\x86")
         + _frame(6, 0, 0, b"12345678") + _frame(9, 0x4, 1, b"\x84")),
        ("hpack-garbage", lambda: peer.preface() + _frame(1, 0x5, 1, b"\xff\xff\xff\xff\xff\xff")),
        ("hpack-bad-index", lambda: peer.preface() + _frame(1, 0x5, 1, b"\xfe")),
        ("frame-too-large", lambda: peer.preface() + _frame(0, 0, 1, b"", length=1 << 20)),
        ("rst-on-idle-stream", lambda: peer.preface() + _frame(3, 0, 1, struct.pack(">I", 8))),
        ("rst-bad-length", lambda: peer.preface() + peer.headers(1, hdrs) + _frame(3, 0, 1, b"\x00\x00")),
        ("priority-bad-length", lambda: peer.preface() + _frame(2, 0, 1, b"\x00\x00\x00")),
        ("goaway-on-stream", lambda: peer.preface() + _frame(7, 0, 1, struct.pack(">II", 0, 0))),
        ("uppercase-header", lambda: peer.preface() + peer.headers(1, hdrs + [(b"X-Upper", b"1")], end_stream=True)),
        ("pseudo-after-regular", lambda: peer.preface() + peer.headers(
            1, [(b":method", b"GET"), (b"x-a", b"1"), (b":scheme", b"http"), (b":path", b"/x"),
                (b":authority", b"a")], end_stream=True)),
        ("empty-path", lambda: peer.preface() + peer.headers(
            1, [(b":method", b"GET"), (b":scheme", b"http"), (b":authority", b"a"), (b":path", b"")], end_stream=True)),
        ("padding-too-long", lambda: peer.preface() + peer.headers(1, hdrs) + _frame(0, 0x8, 1, b"\x10abc")),
    ]


# (c) legal but rare HTTP/2 items; each returns the bytes to send, given the peer and a fresh stream id
def _rare_items() -> List[str]:
    return ["priority-before-headers", "priority-exclusive", "rst-closed-stream", "window-update-closed-stream",
            "continuation-chain", "padded-headers", "padded-data", "request-trailers", "plain-connect",
            "data-after-response", "non-ascii-path", "zero-length-data", "settings-burst", "ping", "unknown-frame",
            "unknown-setting", "client-rst-running", "connect-protocol-no-version", "options-star",
            "path-without-slash", "huge-header-value", "many-cookies", "percent-garbage-path",
            "window-update-stream", "priority-on-closed", "te-trailers-header", "expect-continue", "head-with-body",
            "late-data-large", "window-update-after-response", "rst-after-response"]


def plan(tier: str) -> dict:
    cases = []
    for worker in ("asyncio", "trio"):
        for i in range(len(H1_MALFORMED)):
            cases.append({"worker": worker, "case": {"kind": "h1-malformed", "index": i}})
        for i in range(len(_h2_malformed(H2Peer()))):
            cases.append({"worker": worker, "case": {"kind": "h2-malformed", "index": i}})
        for i in range(len(H1_UNUSUAL)):
            cases.append({"worker": worker, "case": {"kind": "h1-unusual", "index": i}})
        for item in _rare_items():
            for pos in ("before", "between", "after"):
                cases.append({"worker": worker, "case": {"kind": "h2-rare", "items": [item], "pos": pos}})
    return {
        "runs": 25000 if tier == "quick" else 1000000,
        "budget": 150 if tier == "quick" else 900,
        "cases": cases,
        "chunk": 40,
        "rule": "Four input families, each with tape-drawn segmentation and inter-segment delays on both workers: (a) random "
        "byte strings behind protocol-looking prefixes; (b) bit / byte / delete / insert / splice / truncate mutations "
        "of valid HTTP/1 pipelines, HTTP/2 sessions and WebSocket sessions; (c) legal but rare HTTP/2 items "
        "(PRIORITY before HEADERS, RST / WINDOW_UPDATE on closed streams, CONTINUATION chains, padding, request "
        "trailers, plain CONNECT, DATA after the response, non-ASCII path, unknown frames/settings ...) at "
        "tape-chosen points next to 1..3 ordinary sibling streams; (d) a catalogue of malformed HTTP/1 requests and "
        "HTTP/2 protocol violations.  After every input a fresh connection must still be served.",
        "enumerated": ["catalogue (d): every malformed HTTP/1 request and HTTP/2 violation x worker",
                       "16 HTTP/1 requests that h11 accepts but that carry obs-text / percent junk where hypercorn or wsproto decode x worker",
                       "every rare HTTP/2 item x position {before, between, after the siblings} x worker"],
        "assumptions": ["applications are well-behaved (read the body, answer 200)",
                        "for families (a) and (b) only the absence of internal errors, the release of the connection "
                        "and the health of the server afterwards are judged, not what is answered"],
    }


def random_params(i: int, tier: str) -> dict:
    kinds = ["random", "mutate-h1", "mutate-h2", "mutate-ws", "h2-rare", "h2-rare", "mutate-h2", "mutate-h1"]
    return {"worker": "asyncio" if i % 2 == 0 else "trio", "kind": kinds[(i // 2) % len(kinds)]}


# --------------------------------------------------------------------------------------------------
def _valid_h1(tape: Tape) -> bytes:
    out = b""
    for k in range(1 + tape.draw(3, "h1.nreq")):
        tag = b"v%d" % k
        form = tape.draw(3, "h1.form")
        hdrs = [(b"Host", b"example.test"), (b"x-tag", tag)]
        if form == 0:
            out += h1peer.build_request(b"GET", b"/a?b=c", hdrs)
        elif form == 1:
            body = bytes(range(48, 48 + 20))
            out += h1peer.build_request(b"POST", b"/p", hdrs + [(b"Content-Length", b"%d" % len(body))], body)
        else:
            body = b"chunked-body-" * 5
            out += h1peer.build_request(b"PUT", b"/c", hdrs + [(b"Transfer-Encoding", b"chunked")], body,
                                        chunks=[7, 13, 100])
    return out


def _valid_h2(tape: Tape) -> bytes:
    peer = H2Peer()
    out = peer.preface()
    for k in range(1 + tape.draw(3, "h2.nreq")):
        sid = peer.new_stream()
        tag = b"v%d" % k
        hdrs = [(b":method", b"POST" if k % 2 else b"GET"), (b":scheme", b"http"), (b":authority", b"example.test"),
                (b":path", b"/" + tag), (b"x-tag", tag)]
        if k % 2:
            out += peer.headers(sid, hdrs) + peer.data_frame(sid, b"x" * 30) + peer.data_frame(sid, b"y" * 5, True)
        else:
            out += peer.headers(sid, hdrs, end_stream=True)
    out += peer.ping() + peer.window_update(0, 1000)
    return out


def _valid_ws(tape: Tape) -> bytes:
    key = b"dGhlIHNhbXBsZSBub25jZQ=="
    out = wsp.handshake_request(b"/ws", key, tag=b"ws")
    out += wsp.frame(wsp.OP_TEXT, b"hello") + wsp.frame(wsp.OP_PING, b"p") + wsp.frame(wsp.OP_BIN, b"\x00" * 40)
    out += wsp.frame(wsp.OP_TEXT, b"frag", fin=False) + wsp.frame(wsp.OP_CONT, b"ment")
    out += wsp.frame(wsp.OP_CLOSE, wsp.close_payload(1000, b"bye"))
    return out


def _mutate(tape: Tape, data: bytes) -> bytes:
    buf = bytearray(data)
    for _ in range(1 + tape.draw(3, "mut.n")):
        if not buf:
            break
        op = tape.draw(8, "mut.op")
        pos = tape.draw(len(buf), "mut.pos")
        if op == 0:
            buf[pos] ^= 1 << tape.draw(8, "mut.bit")
        elif op == 1:
            buf[pos] = tape.draw(256, "mut.byte")
        elif op == 2:
            del buf[pos:pos + 1 + tape.draw(16, "mut.dellen")]
        elif op == 3:
            ins = bytes(tape.draw(256, "mut.ins") for _ in range(1 + tape.draw(8, "mut.inslen")))
            buf[pos:pos] = ins
        elif op == 4:
            src = tape.draw(len(buf), "mut.src")
            n = 1 + tape.draw(32, "mut.splen")
            buf[pos:pos] = buf[src:src + n]
        elif op == 7:
            buf[pos] = 0x80 + tape.draw(128, "mut.high")
        elif op == 5:
            del buf[pos:]
        else:
            buf[pos:pos + 1] = tape.choice([b"\r\n", b"\n", b"\x00", b"\xff\xff\xff\xff", b" ", b":", b"\r"], "mut.tok")
    return bytes(buf)


def _segments(tape: Tape, data: bytes) -> List[Tuple[bytes, float]]:
    mode = tape.weighted([3, 3, 2, 1], "seg.mode")
    if mode == 0 or len(data) < 2:
        return [(data, 0.0)]
    if mode == 1:
        cuts = sorted({tape.draw(len(data), "seg.cut") for _ in range(1 + tape.draw(4, "seg.ncuts"))})
    elif mode == 2:
        step = 1 + tape.draw(40, "seg.step")
        cuts = list(range(step, min(len(data), step * 60), step))
    else:
        cuts = list(range(1, min(len(data), 25)))
    out = []
    prev = 0
    for c in cuts + [len(data)]:
        if c > prev:
            out.append((data[prev:c], tape.choice([0.0, 0.001, 0.02], "seg.gap")))
            prev = c
    return out


def run(tape: Tape, params: dict) -> Outcome:
    case = params.get("case")
    kind = case["kind"] if case else params["kind"]
    if case is not None:
        tape = Tape(values=[])
    world = World(tape, params["worker"])
    sim = world.sim
    host = AppHost(sim, world.worker)
    world.app = host
    world.config.keep_alive_timeout = 2.0
    out = Outcome()
    info: Dict[str, Any] = {"worker": world.worker, "kind": kind}
    ctx: Dict[str, Any] = {}
    host.programs[b"ws"] = None  # type: ignore
    from ..wsgen import app_ws_echo

    # the WebSocket application sometimes closes by itself after a message or two and goes on listening: frames
    # that are still on their way (a ping, more messages, the client's own close) then meet a closing connection
    ws_close_after = tape.choice([None, None, 1, 2], "ws.app.close_after")
    host.programs[b"ws"] = [("call", app_ws_echo(close_after=ws_close_after))]
    seg = [0, 1, 2, 7][tape.weighted([3, 3, 1, 1], "conn.seg")]

    def setup(conn: Any) -> None:
        conn.seg_mode = seg

    if kind in ("random", "mutate-h1", "mutate-h2", "mutate-ws", "h1-malformed", "h2-malformed", "h1-unusual"):
        sink: Any = Sink()
        if kind == "random":
            prefix = tape.choice([b"", b"GET ", b"GET / HTTP/1.1\r\n", MAGIC, MAGIC + hf.SettingsFrame(0).serialize(),
                                  b"POST / HTTP/1.1\r\nHost: a\r\nTransfer-Encoding: chunked\r\n\r\n"], "rnd.prefix")
            n = tape.choice([1, 10, 60, 300], "rnd.len")
            data = prefix + bytes(tape.draw(256, "rnd.byte") for _ in range(n))
        elif kind == "mutate-h1":
            data = _mutate(tape, _valid_h1(tape))
        elif kind == "mutate-h2":
            data = _mutate(tape, _valid_h2(tape))
        elif kind == "mutate-ws":
            data = _mutate(tape, _valid_ws(tape))
        elif kind == "h1-unusual":
            name, data = H1_UNUSUAL[case["index"]]
            info["name"] = name
        elif kind == "h1-malformed":
            name, data = H1_MALFORMED[case["index"]]
            info["name"] = name
            sink = h1peer.ResponseParser()
            sink.expect(b"GET")
        else:
            peer = H2Peer()
            name, make = _h2_malformed(peer)[case["index"]]
            data = make()
            info["name"] = name
            sink = peer
        info["len"] = len(data)
        steps: List[tuple] = []
        for piece, gap in _segments(tape, data):
            steps.append(("send", piece))
            if gap:
                steps.append(("sleep", gap))
        ending = tape.choice(["wait", "fin", "close", "rst"], "ending") if case is None else "wait"
        steps.append(("wait", lambda sc: sc.ended, 3.0))
        if ending != "wait":
            steps.append((ending,))
        else:
            steps.append(("fin",))
        steps.append(("wait", lambda sc: sc.ended, 3.0))
        script = Script(world, steps, sink, setup=setup)
        script.hold_flush = kind != "h2-malformed"
        script.start_at(0.1)
        ctx.update(script=script, sink=sink, ending=ending)
        t_after = 8.0
    else:
        t_after = _build_rare(tape, world, host, case, info, ctx, setup)
    # the server must still serve a fresh connection afterwards
    fresh_parser = h1peer.ResponseParser()
    fresh_parser.expect(b"GET")
    fresh = Script(world, [("send", b"GET /fresh HTTP/1.1\r\nHost: example.test\r\nx-tag: fresh\r\n\r\n"),
                           ("wait", responses_at_least(1), 5.0), ("close",)], fresh_parser)
    fresh.start_at(t_after)
    world.run(end_at=t_after + 4.0)
    host.drain_leftovers()
    out.sample = info
    _check(world, host, kind, ctx, fresh, info, out)
    return finish_outcome(world, out)


def _build_rare(tape: Tape, world: World, host: AppHost, case: Optional[dict], info: Dict[str, Any],
                ctx: Dict[str, Any], setup: Any) -> float:
    sim = world.sim
    peer = H2Peer()
    peer.clock = lambda: sim.now
    nsib = 1 + tape.draw(3, "rare.nsib") if case is None else 2
    if case is not None:
        items = list(case["items"])
        positions = [case["pos"]]
    else:
        all_items = _rare_items()
        items = [all_items[tape.draw(len(all_items), "rare.item")] for _ in range(1 + tape.draw(3, "rare.nitems"))]
        positions = [tape.choice(["before", "between", "after"], "rare.pos") for _ in items]
    info.update(items=items, positions=positions, siblings=nsib)
    sib_delay = tape.choice([0.05, 0.0, 0.2], "rare.sibdelay")
    sibs: List[Tuple[int, bytes]] = []
    rare_streams: List[Tuple[str, int]] = []
    steps: List[tuple] = [("send", peer.preface()), ("wait", lambda sc: peer.settings_frames > 0, 3.0)]
    closed_sid: List[int] = []

    def hdrs(tag: bytes, method: bytes = b"GET", path: Optional[bytes] = None, extra: Optional[list] = None) -> list:
        return [(b":method", method), (b":scheme", b"http"), (b":authority", b"example.test"),
                (b":path", path if path is not None else b"/" + tag), (b"x-tag", tag)] + list(extra or [])

    def send(fn: Callable[[], bytes]) -> tuple:
        return ("call", lambda sc: None if sc.ended else sc.conn.client.send(fn()))

    def rare_steps(item: str, index: int) -> List[tuple]:
        tag = b"rare%d" % index
        host.programs[tag] = [("recv_all",), ("respond", 200, [], [b"rare-ok"])]
        st: List[tuple] = []
        sid = None
        if item not in ("settings-burst", "ping", "unknown-setting", "rst-closed-stream", "window-update-closed-stream",
                        "priority-on-closed"):
            sid = peer.new_stream()
            rare_streams.append((item, sid))
        if item == "priority-before-headers":
            st.append(send(lambda: peer.priority(sid, 0, 200, False) + peer.headers(sid, hdrs(tag), end_stream=True)))
        elif item == "priority-exclusive":
            dep = sibs[0][0] if sibs else 0
            st.append(send(lambda: peer.headers(sid, hdrs(tag), end_stream=True, priority=(dep, 17, True))))
        elif item in ("rst-closed-stream", "window-update-closed-stream", "priority-on-closed"):
            def late(item: str = item) -> bytes:
                done = [s for s, _ in sibs if peer.stream_done(s)] or closed_sid
                if not done:
                    return b""
                if item == "rst-closed-stream":
                    return peer.rst_stream(done[0], 8)
                if item == "priority-on-closed":
                    return peer.priority(done[0], 0, 3, False)
                return hf.WindowUpdateFrame(done[0], window_increment=100).serialize()

            st.append(send(late))
        elif item == "continuation-chain":
            st.append(send(lambda: peer.headers(sid, hdrs(tag, extra=[(b"x-long", b"v" * 300)]), end_stream=True,
                                                split=[10] * 6)))
        elif item == "padded-headers":
            st.append(send(lambda: peer.headers(sid, hdrs(tag), end_stream=True, pad=17)))
        elif item == "padded-data":
            st.append(send(lambda: peer.headers(sid, hdrs(tag, b"POST")) + peer.data_frame(sid, b"abc", True, pad=9)))
        elif item == "request-trailers":
            st.append(send(lambda: peer.headers(sid, hdrs(tag, b"POST")) + peer.data_frame(sid, b"abc")
                           + peer.headers(sid, [(b"x-trailer", b"1")], end_stream=True)))
        elif item == "plain-connect":
            st.append(send(lambda: peer.headers(sid, [(b":method", b"CONNECT"), (b":authority", b"example.test:443"),
                                                      (b"x-tag", tag)])))
        elif item == "data-after-response":
            host.programs[tag] = [("respond", 200, [], [b"early"])]
            st.append(send(lambda: peer.headers(sid, hdrs(tag, b"POST"))))
            st.append(("wait", lambda sc, sid=sid: peer.stream_done(sid), 1.0))
            st.append(send(lambda: hf.DataFrame(sid, data=b"late-data").serialize()
                           + hf.DataFrame(sid, data=b"", flags=["END_STREAM"]).serialize()))
        elif item == "late-data-large":
            # the answer comes before the body; the client keeps uploading about one connection window on
            # that stream, then a sibling needs the connection window for its own upload
            host.programs[tag] = [("respond", 200, [], [b"early"])]
            st.append(send(lambda: peer.headers(sid, hdrs(tag, b"POST"))))
            st.append(("wait", lambda sc, sid=sid: peer.stream_done(sid), 1.0))
            st.append(send(lambda: b"".join(peer.data_frame(sid, b"L" * 16000) for _ in range(4))))
            st.append(("sleep", 0.05))
            up = peer.new_stream()
            uptag = b"up%d" % index
            host.programs[uptag] = [("recv_all",), ("respond", 200, [], [b"upload-ok"])]
            sibs.append((up, uptag))
            ctx.setdefault("bodies", {})[up] = b"upload-ok"

            def open_upload(sc: Script, up: int = up, uptag: bytes = uptag) -> None:
                if not sc.ended:
                    sc.conn.client.send(peer.headers(up, hdrs(uptag, b"POST")))
                    peer.queue_upload(up, b"U" * 20000, True)

            st.append(("call", open_upload))
        elif item in ("window-update-after-response", "rst-after-response"):
            # the answer comes before the request body has ended: the server has finished with the stream while
            # the client may still credit or reset it
            host.programs[tag] = [("respond", 200, [], [b"early"])]
            st.append(send(lambda: peer.headers(sid, hdrs(tag, b"POST"))))
            st.append(("wait", lambda sc, sid=sid: peer.streams.get(sid) is not None and peer.streams[sid].ended, 1.0))
            if item == "window-update-after-response":
                st.append(send(lambda: hf.WindowUpdateFrame(sid, window_increment=1000).serialize()))
            else:
                st.append(send(lambda: hf.RstStreamFrame(sid, error_code=8).serialize()))
        elif item == "non-ascii-path":
            st.append(send(lambda: peer.headers(sid, hdrs(tag, path=b"/caf\xc3\xa9/\xff\xfe"), end_stream=True)))
        elif item == "zero-length-data":
            st.append(send(lambda: peer.headers(sid, hdrs(tag, b"POST")) + peer.data_frame(sid, b"")
                           + peer.data_frame(sid, b"") + peer.data_frame(sid, b"", True)))
        elif item == "settings-burst":
            st.append(send(lambda: b"".join(peer.settings({4: 65535 + i}) for i in range(8))))
        elif item == "ping":
            st.append(send(lambda: peer.ping(b"abcdefgh") + peer.ping(b"12345678")))
        elif item == "unknown-frame":
            st.append(send(lambda: _frame(0xFA, 0xFF, sid, b"whatever") + _frame(0xFB, 0, 0, b"")
                           + peer.headers(sid, hdrs(tag), end_stream=True)))
        elif item == "unknown-setting":
            st.append(send(lambda: _frame(4, 0, 0, b"\x00\xf0\x00\x00\x00\x07")))
        elif item == "client-rst-running":
            host.programs[tag] = [("recv_all",), ("pause", ("sleep", 0.3)), ("respond", 200, [], [b"late"])]
            st.append(send(lambda: peer.headers(sid, hdrs(tag), end_stream=True)))
            st.append(("sleep", 0.01))
            st.append(send(lambda: peer.rst_stream(sid, 8)))
        elif item == "connect-protocol-no-version":
            st.append(send(lambda: peer.headers(sid, [(b":method", b"CONNECT"), (b":protocol", b"websocket"),
                                                      (b":scheme", b"http"), (b":authority", b"example.test"),
                                                      (b":path", b"/ws"), (b"x-tag", tag)])))
        elif item == "options-star":
            st.append(send(lambda: peer.headers(sid, hdrs(tag, b"OPTIONS", path=b"*"), end_stream=True)))
        elif item == "path-without-slash":
            st.append(send(lambda: peer.headers(sid, hdrs(tag, path=b"no-slash"), end_stream=True)))
        elif item == "huge-header-value":
            st.append(send(lambda: peer.headers(sid, hdrs(tag, extra=[(b"x-big", b"z" * 20000)]), end_stream=True)))
        elif item == "many-cookies":
            st.append(send(lambda: peer.headers(sid, hdrs(tag, extra=[(b"cookie", b"a%d=b" % i) for i in range(40)]),
                                                end_stream=True)))
        elif item == "percent-garbage-path":
            st.append(send(lambda: peer.headers(sid, hdrs(tag, path=b"/%zz/%/%f"), end_stream=True)))
        elif item == "window-update-stream":
            st.append(send(lambda: peer.headers(sid, hdrs(tag), end_stream=True) + peer.window_update(sid, 1)))
        elif item == "te-trailers-header":
            st.append(send(lambda: peer.headers(sid, hdrs(tag, extra=[(b"te", b"trailers")]), end_stream=True)))
        elif item == "expect-continue":
            st.append(send(lambda: peer.headers(sid, hdrs(tag, b"POST", extra=[(b"expect", b"100-continue")]))
                           + peer.data_frame(sid, b"body", True)))
        elif item == "head-with-body":
            st.append(send(lambda: peer.headers(sid, hdrs(tag, b"HEAD")) + peer.data_frame(sid, b"body", True)))
        return st

    before = [rare_steps(it, i) for i, (it, p) in enumerate(zip(items, positions)) if p == "before"]
    for s in before:
        steps += s
    for k in range(nsib):
        sid = peer.new_stream()
        tag = b"sib%d" % k
        sibs.append((sid, tag))
        body = b"sibling-%d-" % k * 50
        host.programs[tag] = [("recv_all",), ("pause", ("sleep", sib_delay * (k + 1))), ("respond", 200, [], [body])]
        ctx.setdefault("bodies", {})[sid] = body
        steps.append(send(lambda sid=sid, tag=tag: peer.headers(sid, hdrs(tag), end_stream=True)))
        if k == 0:
            for i, (it, p) in enumerate(zip(items, positions)):
                if p == "between":
                    steps += rare_steps(it, i)
    steps.append(("sleep", tape.choice([0.0, 0.02, 0.3], "rare.aftergap")))
    for i, (it, p) in enumerate(zip(items, positions)):
        if p == "after":
            steps += rare_steps(it, i)
    steps.append(("wait", lambda sc: all(peer.stream_done(s) for s, _ in sibs), 5.0))
    steps.append(("sleep", 0.5))
    steps.append(("fin",))
    steps.append(("wait", lambda sc: sc.ended, 3.0))
    script = Script(world, steps, peer, setup=setup)
    script.start_at(0.1)
    ctx.update(script=script, peer=peer, sibs=sibs, rare_streams=rare_streams)
    return 8.0


def _check(world: World, host: AppHost, kind: str, ctx: Dict[str, Any], fresh: Script, info: Dict[str, Any],
           out: Outcome) -> None:
    def bad(rule: str, msg: str, **key: Any) -> None:
        out.violations.append(Violation(rule, msg, dict(key, worker=world.worker, kind=kind)))

    items = info.get("items", [])
    name = info.get("name") or (items[0] if len(set(items)) == 1 else "several")
    # ---- no internal error
    if world.result != "returned":
        bad("internal-error", f"worker_serve ended with {world.result}: {world.exception!r}", what="worker", name=name)
    if world.loop_exceptions:
        bad("internal-error", f"event-loop exception handler called: {world.loop_exceptions[:1]}", what="loop",
            name=name)
    errs = [r for r in world.logger.records if r[2] in ("error", "critical", "exception")]
    if errs:
        bad("internal-error", f"error logged: {errs[0][3:]}", what="log", name=name)
    # ---- the connection is released
    script: Script = ctx["script"]
    conn = script.conn
    if conn is not None and conn.accepted_at is not None:
        h = world.handlers.get(conn.id)
        if h is None or h[1] is None:
            bad("handler-not-released", "the connection handler never finished although the client has closed",
                name=name)
        if conn.server.fd in world.open_fds:
            bad("socket-not-released", "server socket still open at the end of the run", name=name)
    if world.leftover_tasks:
        out.notes.append(f"leftover tasks: {world.leftover_tasks[:3]}")
    # ---- the server is still healthy
    if not fresh.parser.responses or fresh.parser.responses[0].status != 200:
        bad("server-unhealthy", f"a fresh connection after the input was not served "
            f"({fresh.parser.responses[0].status if fresh.parser.responses else None})", name=name)
    # ---- catalogue outcomes
    if kind == "h1-malformed":
        p = ctx["sink"]
        rs = p.responses
        c = conn.client
        # h11 hints 501 (not implemented) for a transfer coding it does not know
        allowed_5xx = {501} if name == "unknown-transfer-coding" else set()
        if not rs or not (400 <= rs[0].status < 500 or rs[0].status in allowed_5xx):
            bad("h1-malformed-4xx", f"{name}: answered {rs[0].status if rs else None} "
                f"(parser error {p.error}), expected a 4xx", name=name)
        elif b"close" not in [v.lower() for v in rs[0].header_all(b"connection")]:
            bad("h1-malformed-close", f"{name}: the {rs[0].status} response does not say connection: close", name=name)
        if c.server_closed_at is None:
            bad("h1-malformed-close", f"{name}: connection not closed by the server", name=name)
        if len(rs) > 1:
            bad("h1-malformed-4xx", f"{name}: {len(rs)} responses to one malformed request", name=name)
    elif kind == "h2-malformed":
        peer = ctx["sink"]
        c = conn.client
        if peer.goaway is None and c.server_closed_at is None:
            bad("h2-violation-ended", f"{name}: neither GOAWAY nor close after a protocol violation", name=name)
        if c.server_closed_at is None:
            bad("h2-violation-ended", f"{name}: the connection was not closed after the violation "
                f"(goaway {peer.goaway})", name=name)
        if any(i.tag is None or not i.tag.startswith(b"fresh") for i in host.instances if i.tag != b"fresh"):
            pass
    elif kind == "h2-rare":
        peer = ctx["peer"]
        if peer.errors:
            bad("wire-wellformed", f"server output does not parse: {peer.errors[:1]}", name=name)
        if peer.goaway is not None and peer.goaway[1] != 0:
            bad("rare-goaway", f"legal but rare input {name} ended the connection with GOAWAY error "
                f"{peer.goaway[1]}", name=name)
        for sid, tag in ctx["sibs"]:
            st = peer.streams.get(sid)
            # (a RST_STREAM the client itself sent for an already finished stream changes nothing)
            if st is None or st.ended != 1 or st.status != 200 or bytes(st.data) != ctx["bodies"][sid]:
                bad("sibling-harmed", f"sibling stream {sid} next to {name} did not complete normally: "
                    f"status {st.status if st else None}, {len(st.data) if st else 0} bytes, reset "
                    f"{st.reset if st else None}, goaway {peer.goaway}", name=name)
                break
