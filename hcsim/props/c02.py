"""C02 - HTTP response delivery fidelity and legal framing."""
from __future__ import annotations

import re
from typing import Any, Dict, List

from ..apps import AppHost, Instance
from ..core import Tape
from ..runner import Outcome, Violation, finish_outcome
from ..session import ConnPlan, Req, Session, gen_session, make_opts
from ..world import World

ID = "C02"

IMF = re.compile(rb"^(Mon|Tue|Wed|Thu|Fri|Sat|Sun), \d{2} (Jan|Feb|Mar|Apr|May|Jun|Jul|Aug|Sep|Oct|Nov|Dec) "
                 rb"\d{4} \d{2}:\d{2}:\d{2} GMT$")
SERVER_OWN = {b"date", b"server", b"alt-svc", b"connection"}


def plan(tier: str) -> dict:
    return {
        "runs": 12000 if tier == "quick" else 600000,
        "budget": 150 if tier == "quick" else 900,
        "cases": [],
        "chunk": 40,
        "rule": "Random sessions (HTTP/1.0, 1.1, 2) whose applications send tape-chosen statuses, header lists, "
        "chunkings (empty, 1 byte, larger than frame size and flow-control windows), trailers and early hints, "
        "while the client stalls, uses small/zero HTTP/2 windows with dribbled WINDOW_UPDATEs, short socket "
        "buffers and short writes; an own parser on the client side recovers each response and is compared with "
        "what the application sent.",
        "assumptions": ["applications declare a correct content-length or none; they do not send connection/"
                        "transfer-encoding headers themselves"],
    }


def random_params(i: int, tier: str) -> dict:
    return {"worker": "asyncio" if i % 2 == 0 else "trio"}


def run(tape: Tape, params: dict) -> Outcome:
    world = World(tape, params["worker"])
    host = AppHost(world.sim, world.worker)
    world.app = host
    out = Outcome()
    opts = make_opts(
        big_resp=tape.chance(1, 4, "opt.bigresp"), trailers=True, early_hints=True, stall=2, h2_windows=True,
        read_modes=[6, 1, 1], conn_headers=False, think=[0.0, 0.0, 0.3],
    )
    world.config.max_app_queue_size = 1 + tape.draw(10, "cfg.queue")
    if tape.chance(1, 6, "cfg.nodate"):
        world.config.include_date_header = False
    if tape.chance(1, 6, "cfg.noserver"):
        world.config.include_server_header = False
    if tape.chance(1, 6, "cfg.altsvc"):
        world.config.alt_svc_headers = ['h3=":443"; ma=3600']
    if tape.chance(1, 5, "clock.walljump"):
        jump = tape.choice([3600.0, -7200.0, 86400.0 * 400], "clock.jumpby")
        world.sim.at(0.1005, _wall_jump, world, jump)
    session = gen_session(tape, world, host, opts)
    world.run(end_at=200.0)
    host.drain_leftovers()
    out.sample = session.sample
    _check(world, host, session, out)
    return finish_outcome(world, out)


def _wall_jump(world: World, jump: float) -> None:
    world.sim.wall_offset += jump
    world.sim.fault("clock.wall_jump")


def _norm(headers: List[tuple]) -> List[tuple]:
    return [(bytes(n).lower(), bytes(v).strip()) for n, v in headers]


def judged(inst: Instance) -> bool:
    if inst.end != "returned":
        return False
    for entry in inst.sends:
        if entry[3] != "ok" and not (entry[2]["type"] == "http.response.early_hint"):
            return False
    return True


def _check(world: World, host: AppHost, session: Session, out: Outcome) -> None:
    def bad(rule: str, msg: str, **key: Any) -> None:
        out.violations.append(Violation(rule, msg, dict(key, worker=world.worker)))

    by_tag: Dict[bytes, Instance] = {}
    for inst in host.instances:
        by_tag.setdefault(inst.tag, inst)
    cfg = world.config
    # every client pace ends in delivery: a send may wait for the client, but not while the client is
    # connected, reading and (HTTP/2) has granted credit on both the stream and the connection
    for plan in session.conns:
        conn = plan.script.conn if plan.script is not None else None
        t_end = world.trigger_at  # the scenario is over when the harness begins the final shutdown
        if conn is None or conn.accepted_at is None:
            continue
        if conn.server.closed_at is not None and (t_end is None or conn.server.closed_at < t_end):
            continue
        client = conn.client
        if not client.reading or client.closed or client.fin_sent or (client.rst_at is not None and (t_end is None or client.rst_at < t_end)):
            continue
        for req in plan.reqs:
            inst = by_tag.get(req.tag)
            if inst is None or not any(e[3] == "pending" or (e[3] == "cancelled" and t_end is not None
                                                           and e[5] >= t_end and e[1] < t_end - 30.0)
                                       for e in inst.sends):
                continue
            if plan.proto == "h2":
                st = plan.peer.streams.get(req.sid)
                if st is None or st.reset is not None or plan.peer.conn_recv_window <= 0 or st.recv_window <= 0:
                    continue
                detail = f"connection window {plan.peer.conn_recv_window}, stream window {st.recv_window}"
            else:
                detail = "client reading"
            # known finding F06: the server's own put of http.disconnect is stuck behind a full receive
            # queue of some instance on this connection
            full = any(by_tag.get(r.tag) is not None and len(by_tag[r.tag].leftover) >= cfg.max_app_queue_size
                       for r in plan.reqs)
            bad("stuck-send", f"{req.tag!r}: the application is still waiting in send() at the end of the run "
                f"although the client is connected and accepting data ({detail})", proto=plan.proto,
                cause="recv-queue-full" if full else "other")
    for plan in session.conns:
        if plan.proto == "h1":
            parser = plan.parser
            if parser.error:
                bad("wire-wellformed", f"conn {plan.index}: client parser error: {parser.error}", proto="h1")
                continue
            for i, req in enumerate(plan.reqs):
                inst = by_tag.get(req.tag)
                if inst is None or not judged(inst):
                    break
                if i >= len(parser.responses):
                    bad("complete", f"{req.tag!r}: application finished its response but the client never "
                        f"received a complete response (current={parser.current is not None})", proto="h1",
                        version=req.version.decode())
                    break
                _compare_h1(world, req, inst, parser.responses[i], bad)
            if len(parser.responses) > len(plan.reqs):
                bad("extra-response", f"conn {plan.index}: {len(parser.responses)} responses for "
                    f"{len(plan.reqs)} requests", proto="h1")
            if parser.leftover and not parser.upgraded and parser.current is None:
                bad("wire-wellformed", f"conn {plan.index}: {len(parser.leftover)} stray bytes after the last "
                    f"response", proto="h1")
        else:
            peer = plan.peer
            if peer.errors:
                bad("wire-wellformed", f"conn {plan.index}: HTTP/2 parse errors {peer.errors[:2]}", proto="h2")
                continue
            for req in plan.reqs:
                inst = by_tag.get(req.tag)
                if inst is None or not judged(inst):
                    continue
                st = peer.streams.get(req.sid)
                if st is None or not st.ended:
                    if st is not None and st.reset is not None:
                        bad("complete", f"{req.tag!r}: stream {req.sid} was reset ({st.reset}) although the "
                            f"application completed its response", proto="h2")
                    else:
                        bad("complete", f"{req.tag!r}: application finished its response but stream {req.sid} "
                            f"never ended at the client (got {len(st.data) if st else 0} bytes)", proto="h2")
                    continue
                _compare_h2(world, req, inst, st, bad)


def _app_response(inst: Instance) -> Dict[str, Any]:
    start = None
    chunks = []
    trailers = None
    for entry in inst.sends:
        m = entry[2]
        if m["type"] == "http.response.start":
            start = m
        elif m["type"] == "http.response.body":
            chunks.append(bytes(m.get("body", b"")))
        elif m["type"] == "http.response.trailers":
            trailers = list(m.get("headers", []))
    return {"start": start, "body": b"".join(chunks), "trailers": trailers}


def _check_own_headers(world: World, rest: List[tuple], allowed: set, tag: bytes, bad: Any, proto: str) -> None:
    cfg = world.config
    names = [n for n, _ in rest]
    for n, v in rest:
        if n not in allowed:
            bad("headers-extra", f"{tag!r}: server added header {n!r}: {v!r} (only date/server/alt-svc/connection "
                f"and the HTTP/1 framing header are allowed after the application's headers)", proto=proto)
    if cfg.include_date_header:
        dates = [v for n, v in rest if n == b"date"]
        if len(dates) != 1 or not IMF.match(dates[0]):
            bad("date-header", f"{tag!r}: date header(s) {dates!r} not exactly one RFC 7231 IMF-fixdate", proto=proto)
    elif b"date" in names:
        bad("headers-extra", f"{tag!r}: date header present although include_date_header is off", proto=proto)
    if cfg.include_server_header:
        if names.count(b"server") != 1:
            bad("headers-extra", f"{tag!r}: {names.count(b'server')} server headers", proto=proto)
    elif b"server" in names:
        bad("headers-extra", f"{tag!r}: server header present although include_server_header is off", proto=proto)
    alts = [v for n, v in rest if n == b"alt-svc"]
    if alts != [a.encode() for a in cfg.alt_svc_headers]:
        bad("headers-extra", f"{tag!r}: alt-svc headers {alts!r} != configured {cfg.alt_svc_headers!r}", proto=proto)


def _compare_h1(world: World, req: Req, inst: Instance, resp: Any, bad: Any) -> None:
    app = _app_response(inst)
    start = app["start"]
    tag = req.tag
    if resp.status != int(start["status"]):
        bad("status", f"{tag!r}: client parsed status {resp.status}, application sent {start['status']}", proto="h1")
        return
    want = _norm(start.get("headers", []))
    got = _norm(resp.headers)
    if got[: len(want)] != want:
        bad("headers-app", f"{tag!r}: response headers {got!r} do not start with the application's {want!r}",
            proto="h1")
    else:
        allowed = set(SERVER_OWN)
        declared = any(n == b"content-length" for n, _ in want)
        if not declared:
            allowed.add(b"transfer-encoding")
        _check_own_headers(world, got[len(want):], allowed, tag, bad, "h1")
    no_body = req.method == b"HEAD" or resp.status in (204, 304)
    want_body = b"" if no_body else app["body"]
    if bytes(resp.body) != want_body:
        bad("body", f"{tag!r}: client body {len(resp.body)} bytes != application body {len(want_body)} bytes "
            f"(method {req.method!r}, status {resp.status}, framing {resp.framing})", proto="h1", no_body=no_body)
    if resp.trailers:
        bad("trailers", f"{tag!r}: trailers {resp.trailers!r} on an HTTP/1 response", proto="h1")


def _compare_h2(world: World, req: Req, inst: Instance, st: Any, bad: Any) -> None:
    app = _app_response(inst)
    start = app["start"]
    tag = req.tag
    final = st.final_headers
    if final is None:
        bad("status", f"{tag!r}: no final response head on stream {req.sid}", proto="h2")
        return
    if final[0][0] != b":status" or int(final[0][1]) != int(start["status"]):
        bad("status", f"{tag!r}: client saw {final[0]!r}, application sent {start['status']}", proto="h2")
        return
    want = _norm(start.get("headers", []))
    got = _norm(final[1:])
    if got[: len(want)] != want:
        bad("headers-app", f"{tag!r}: response headers {got!r} do not start with the application's {want!r}",
            proto="h2")
    else:
        _check_own_headers(world, got[len(want):], {b"date", b"server", b"alt-svc"}, tag, bad, "h2")
    no_body = req.method == b"HEAD" or int(start["status"]) in (204, 304)
    want_body = b"" if no_body else app["body"]
    if bytes(st.data) != want_body:
        bad("body", f"{tag!r}: client body {len(st.data)} bytes != application body {len(want_body)} bytes",
            proto="h2", no_body=no_body)
    if st.ended != 1:
        bad("end-once", f"{tag!r}: {st.ended} END_STREAM flags on stream {req.sid}", proto="h2")
    if st.after_end:
        bad("end-once", f"{tag!r}: {st.after_end} frames after END_STREAM on stream {req.sid}", proto="h2")
    final_blocks = [b for b in st.header_blocks if any(n == b":status" and v.isdigit() and int(v) >= 200 for n, v in b)]
    if len(final_blocks) != 1:
        bad("end-once", f"{tag!r}: {len(final_blocks)} final response heads on stream {req.sid}", proto="h2")
    sent_trailers = app["trailers"] is not None and start.get("trailers")
    if st.trailers is not None:
        if not req.te_trailers:
            bad("trailers", f"{tag!r}: trailers sent to a client that did not send te: trailers", proto="h2")
        elif not sent_trailers or _norm(st.trailers) != _norm(app["trailers"]):
            bad("trailers", f"{tag!r}: trailers {st.trailers!r} != application's {app['trailers']!r}", proto="h2")
    elif sent_trailers and req.te_trailers and not no_body:
        bad("trailers", f"{tag!r}: application trailers not delivered to a te: trailers client", proto="h2")
    hints = [m for _, _, m, o, _, _ in inst.sends if m["type"] == "http.response.early_hint" and o == "ok"]
    interim = st.interim
    if len(interim) != len(hints):
        bad("early-hints", f"{tag!r}: {len(interim)} interim responses for {len(hints)} early hints", proto="h2")
