"""C03 - exactly-once disconnect, one access record, sends after close are no-ops."""
from __future__ import annotations

from typing import Any, Dict, List, Optional

from ..apps import AppHost, Instance
from ..core import Tape
from ..runner import Outcome, Violation, finish_outcome
from ..session import ConnPlan, Req, Session, gen_session, inject_client_fault, make_opts
from ..world import World

ID = "C03"


def plan(tier: str) -> dict:
    return {
        "runs": 20000 if tier == "quick" else 1000000,
        "budget": 150 if tier == "quick" else 900,
        "cases": [],
        "chunk": 40,
        "rule": "Random HTTP/1 and HTTP/2 sessions (and, in every fourth run, a WebSocket session over either carrier "
        "with closing by client close frame, TCP close, RST, application close, keep-alive-less idling into the "
        "shutdown trigger or a failing write) crossed with closing orders: client "
        "FIN/RST/close at a tape-chosen byte or step, failing server writes, keep-alive expiry, Connection: close, "
        "shutdown trigger mid-session, server-generated 404s; applications finish early, late (after waiting "
        "for the disconnect) or raise, and keep sending valid continuation messages after the disconnect.",
        "assumptions": ["an instance that had already returned when its connection closed cannot observe a "
                        "missing disconnect; presence is required only for instances still running at closure"],
    }


def random_params(i: int, tier: str) -> dict:
    return {"worker": "asyncio" if i % 2 == 0 else "trio", "ws": (i // 2) % 4 == 3}


def run(tape: Tape, params: dict) -> Outcome:
    world = World(tape, params["worker"])
    host = AppHost(world.sim, world.worker)
    world.app = host
    out = Outcome()
    cfg = world.config
    if params.get("ws"):
        return _run_ws(tape, world, host, out)
    cfg.keep_alive_timeout = tape.choice([5.0, 0.5, 0.05], "cfg.keepalive")
    cfg.graceful_timeout = 1.0
    cfg.max_app_queue_size = 1 + tape.draw(10, "cfg.queue")
    if tape.chance(1, 4, "cfg.servernames"):
        cfg.server_names = ["example.test"]
    opts = make_opts(conn_headers=True, pipeline=2, think=[0.0, 0.0, 0.1, 0.7], statuses=[200, 200, 204, 404],
                     big_resp=tape.chance(1, 6, "opt.bigresp"), read_modes=[5, 2, 1], stall=1)

    def customize(tape: Tape, plan: ConnPlan, req: Req) -> None:
        if cfg.server_names and tape.chance(1, 4, "req.badhost"):
            req.host = b"other.test"
            req.extra["badhost"] = True
        shape = tape.weighted([4, 3, 2, 1], "app.shape")
        if plan.pipelined and shape >= 2:
            # behind a parked pipelined request the server does not read, so it cannot notice a
            # client that goes away until a write fails: no "late" shapes there
            shape = 1
        req.extra["shape"] = shape
        if shape == 1:
            # finish the response, then keep listening until the disconnect arrives
            req.program = list(req.program) + [("wait_disconnect",)]
        elif shape == 2:
            # late: wait for the disconnect first, then send a complete valid response
            req.program = [("wait_disconnect",), ("respond", 200, [], [b"a", b"b"])]
            req.extra["late"] = True
        elif shape == 3:
            # start the response, wait for the disconnect, continue the response
            req.program = [("recv",), ("send", {"type": "http.response.start", "status": 200, "headers": []}),
                           ("send", {"type": "http.response.body", "body": b"part", "more_body": True}),
                           ("wait_disconnect",),
                           ("send", {"type": "http.response.body", "body": b"rest", "more_body": True}),
                           ("send", {"type": "http.response.body", "body": b"", "more_body": False})]
            req.extra["late"] = True

    session = gen_session(tape, world, host, opts, customize)
    for plan in session.conns:
        # "late" applications only answer after the disconnect: do not wait long for them
        plan.script.steps = [(s[0], s[1], min(s[2], 1.5)) if s[0] == "wait" and len(s) > 2 else s
                             for s in plan.script.steps]
        needs_fault = any(r.extra.get("late") for r in plan.reqs)
        kinds = ["fin", "rst", "close"] if needs_fault else ["none", "none", "fin", "rst", "close"]
        fault = inject_client_fault(tape, plan, kinds)
        if tape.chance(1, 8, "fault.writeerr"):
            k = 1 + tape.draw(6, "fault.writeerr.at")
            conn_setup = plan.script.setup

            def setup(conn: Any, k: int = k, prev: Any = conn_setup) -> None:
                prev(conn)
                conn.fail_send_at = k

            plan.script.setup = setup
            fault = (fault, ("write_err", k))
        session.sample["conns"][plan.index]["fault"] = repr(fault)
    if tape.chance(1, 5, "life.trigger"):
        t = 0.1 + tape.choice([0.0005, 0.002, 0.02, 0.2], "life.trigger.at")
        world.sim.at(t, world.trigger_shutdown)
        world.sim.fault("life.shutdown_at_phase")
        session.sample["trigger_at"] = t
    world.run(end_at=40.0)
    host.drain_leftovers()
    out.sample = session.sample
    _check(world, host, session, out)
    return finish_outcome(world, out)


def _ws_app(shape: int) -> Any:
    async def prog(host: Any, inst: Any, receive: Any, send: Any) -> None:
        m = await host._recv(inst, receive)
        if m["type"] != "websocket.connect":
            return
        await host._send(inst, send, {"type": "websocket.accept"})
        if shape == 2:
            await host._send(inst, send, {"type": "websocket.send", "text": "hello"})
        n = 0
        while True:
            m = await host._recv(inst, receive)
            if m["type"] == "websocket.disconnect":
                break
            n += 1
            out = {"type": "websocket.send", "text": m["text"]} if m.get("text") is not None else \
                {"type": "websocket.send", "bytes": m["bytes"]}
            await host._send(inst, send, out)
            if shape == 3 and n == 1:
                await host._send(inst, send, {"type": "websocket.close", "code": 1000})
        if shape >= 1:
            # after the disconnect: whatever is still sent is accepted silently
            await host._send(inst, send, {"type": "websocket.send", "text": "late"})
            await host._send(inst, send, {"type": "websocket.send", "bytes": b"late"})
            await host._send(inst, send, {"type": "websocket.close", "code": 1000})

    return prog


def _run_ws(tape: Tape, world: World, host: AppHost, out: Outcome) -> Outcome:
    from ..peers import ws as wsp
    from ..wsgen import WSSession, build_ws_script

    cfg = world.config
    cfg.graceful_timeout = 1.0
    cfg.max_app_queue_size = 1 + tape.draw(10, "cfg.queue")
    carrier = ["h1", "h2"][tape.draw(2, "ws.carrier")]
    shape = tape.weighted([3, 3, 2, 2], "ws.shape")
    host.programs[b"w0"] = [("call", _ws_app(shape))]
    sess = WSSession(carrier, b"w0")
    nmsg = tape.draw(4, "ws.nmsg")
    ops: List[tuple] = []
    for k in range(nmsg):
        ops.append(("frames", wsp.frame(wsp.OP_TEXT, b"m%d" % k)))
        if tape.chance(1, 2, "ws.gap"):
            ops.append(("sleep", tape.choice([0.0005, 0.02], "ws.gapdt")))
    closing = ["close-frame", "tcp", "rst", "fin", "idle", "write-err"][tape.weighted([3, 2, 2, 1, 2, 1], "ws.closing")]
    if closing == "close-frame":
        ops += [("close", tape.choice([1000, 1001, None], "ws.code")), ("wait", lambda sc: sc.ended, 2.0), ("tcpclose",)]
    elif closing == "tcp":
        ops += [("sleep", tape.choice([0.0, 0.0005, 0.05], "ws.closeat")), ("tcpclose",)]
    elif closing == "rst":
        ops += [("sleep", tape.choice([0.0, 0.0005, 0.05], "ws.closeat")), ("rst",)]
    elif closing == "fin":
        ops += [("sleep", tape.choice([0.0, 0.0005, 0.05], "ws.closeat")), ("fin",), ("wait", lambda sc: sc.ended, 3.0)]
    else:
        ops += [("wait", lambda sc: sc.ended, 10.0)]
    setup = None
    if closing == "write-err":
        k = 2 + tape.draw(5, "fault.writeerr.at")

        def setup(conn: Any, k: int = k) -> None:
            conn.fail_send_at = k

    script = build_ws_script(world, tape, sess, b"/ws", ops, setup)
    script.start_at(0.1)
    t_end = 0.1 + tape.choice([0.3, 0.02, 2.0], "life.trigger.at")
    world.run(end_at=t_end)
    host.drain_leftovers()
    out.sample = {"worker": world.worker, "ws": True, "carrier": carrier, "shape": shape, "messages": nmsg,
                  "closing": closing, "trigger_at": t_end}
    conn = script.conn
    closed_at = conn.server.closed_at if conn is not None else None
    _check_ws(world, host, sess, shape, out, closed_at)
    return finish_outcome(world, out)


def _check_ws(world: World, host: AppHost, sess: Any, shape: int, out: Outcome,
              closed_at: Optional[float] = None) -> None:
    def bad(rule: str, msg: str, **key: Any) -> None:
        out.violations.append(Violation(rule, msg, dict(key, worker=world.worker, proto="ws-" + sess.carrier)))

    insts = [i for i in host.instances if i.tag == b"w0"]
    if len(insts) > 1:
        bad("one-instance", f"{len(insts)} websocket instances for one request")
    for inst in insts:
        msgs = inst.all_delivered()
        kinds = [m.get("type") for m in msgs]
        n_disc = kinds.count("websocket.disconnect")
        if n_disc > 1:
            bad("disconnect-once", f"{n_disc} websocket.disconnect messages delivered")
        if n_disc >= 1 and kinds[-1] != "websocket.disconnect":
            after = kinds[kinds.index("websocket.disconnect") + 1:]
            bad("nothing-after-disconnect", f"{after} delivered after websocket.disconnect",
                late=",".join(sorted(set(after))))
        full = len(inst.leftover) >= world.config.max_app_queue_size
        # an instance cut down by the forced cancel at the end of the grace period is not owed anything
        forced = inst.end == "cancelled" and world.trigger_at is not None and inst.end_time is not None \
            and inst.end_time >= world.trigger_at + world.config.graceful_timeout - 1e-6
        if forced and closed_at is not None and closed_at < world.trigger_at - 0.01:
            # the connection was over well before shutdown began: the instance had been owed its disconnect since
            # then, the forced cancel only ended its wait
            forced = False
            world.sim.probe("c03.ws.closed_long_before_forced_cancel")
        if n_disc == 0 and world.result == "returned" and inst.end in ("cancelled", None) and kinds and not forced:
            bad("disconnect-missing", f"websocket instance was never sent websocket.disconnect (ended: {inst.end}, "
                f"delivered: {kinds[-3:]})", cause="recv-queue-full" if full else "other")
        disc_seq = next((seq for seq, _, m in inst.received if m.get("type") == "websocket.disconnect"), None)
        if disc_seq is not None:
            for entry in inst.sends:
                if entry[0] > disc_seq and entry[3] in ("pending", "cancelled"):
                    bad("send-after-close-hangs", f"send({entry[2]['type']}) issued after websocket.disconnect never "
                        f"returned", cause="recv-queue-full" if full else "other")
                    break
                if entry[0] > disc_seq and str(entry[3]).startswith("raised"):
                    bad("send-after-close-raises", f"send({entry[2]['type']}) after websocket.disconnect raised "
                        f"{entry[3]}", shape=shape)
                    break
        n_access = sum(1 for rec in world.logger.access_records if rec[2] is inst.scope)
        if n_access != 1 and world.result == "returned" and inst.end != "cancelled":
            bad("access-once", f"{n_access} access-log records for one websocket request (instance end: {inst.end})",
                count=min(n_access, 2))


def _check(world: World, host: AppHost, session: Session, out: Outcome) -> None:
    def bad(rule: str, msg: str, **key: Any) -> None:
        out.violations.append(Violation(rule, msg, dict(key, worker=world.worker)))

    if world.result != "returned":
        out.notes.append(f"worker_serve ended with {world.result}")
    reqs = {r.tag: r for r in session.all_reqs()}
    conn_proto = {c.index: c.proto for c in session.conns}
    access_by_scope: Dict[int, int] = {}
    for rec in world.logger.access_records:
        access_by_scope[id(rec[2])] = access_by_scope.get(id(rec[2]), 0) + 1
    for inst in host.instances:
        req = reqs.get(inst.tag)
        proto = conn_proto.get(req.conn_index, "?") if req is not None else "?"
        msgs = inst.all_delivered()
        kinds = [m.get("type") for m in msgs]
        n_disc = kinds.count("http.disconnect")
        if n_disc > 1:
            bad("disconnect-once", f"{inst.tag!r}: {n_disc} http.disconnect messages delivered", proto=proto)
        if n_disc >= 1 and kinds[-1] != "http.disconnect":
            after = kinds[kinds.index("http.disconnect") + 1:]
            bad("nothing-after-disconnect", f"{inst.tag!r}: {after} delivered after http.disconnect "
                f"(queue bound {world.config.max_app_queue_size})", late=",".join(sorted(set(after))))
        if any(k not in ("http.request", "http.disconnect") for k in kinds):
            bad("message-kinds", f"{inst.tag!r}: unexpected message kinds {sorted(set(kinds))}", proto=proto)
        if n_disc == 0 and world.result == "returned":
            # the connection handler has finished (the worker returned); an instance that was still
            # running when its connection went away must have been told
            if (inst.end == "cancelled" or (inst.end is None)) and not _reader_parked(session, req) \
                    and _owed_disconnect(session, req, inst):
                blocked = _blocked_in_send(inst)
                culprits = [inst] if blocked != "no" else []
                if req is not None:
                    for other in host.instances:
                        oreq = reqs.get(other.tag)
                        if other is not inst and oreq is not None and oreq.conn_index == req.conn_index \
                                and _blocked_in_send(other) != "no":
                            culprits.append(other)
                            if blocked == "no":
                                blocked = "sibling"
                cause = _conn_cause(world, host, reqs, req)
                full = [c for c in culprits if len(c.leftover) >= world.config.max_app_queue_size]
                culprit = full[0] if full else (culprits[0] if culprits else None)
                bad("disconnect-missing", f"{inst.tag!r}: instance was never sent http.disconnect "
                    f"(ended: {inst.end}, delivered: {kinds[-3:]}, blocked in send: {blocked}, "
                    f"unread messages queued: {len(culprit.leftover) if culprit else 0} of "
                    f"{world.config.max_app_queue_size})", proto=proto, cause=cause)
        # sends after the disconnect was *received* by the application must not raise
        disc_seq = None
        for seq, _, m in inst.received:
            if m.get("type") == "http.disconnect":
                disc_seq = seq
                break
        if disc_seq is not None:
            for entry in inst.sends:
                if entry[0] > disc_seq and entry[3] in ("pending", "cancelled"):
                    bad("send-after-close-hangs", f"{inst.tag!r}: send({entry[2]['type']}) issued after "
                        f"http.disconnect never returned", proto=proto,
                        cause=_conn_cause(world, host, reqs, req))
                    break
            for entry in inst.sends:
                if entry[0] > disc_seq and str(entry[3]).startswith("raised"):
                    bad("send-after-close-raises", f"{inst.tag!r}: send({entry[2]['type']}) after http.disconnect "
                        f"raised {entry[3]}", proto=proto, shape=(req.extra.get("shape") if req else None))
                    break
        n_access = access_by_scope.get(id(inst.scope), 0)
        forced = inst.end == "cancelled"  # cut down by the forced cancel at shutdown: not judged
        if n_access != 1 and world.result == "returned" and not forced:
            bad("access-once", f"{inst.tag!r}: {n_access} access-log records for one request "
                f"(instance end: {inst.end})", proto=proto, count=min(n_access, 2))
    # server-generated 404s: one record each, no instance
    started = {i.tag for i in host.instances}
    for plan in session.conns:
        for req in plan.reqs:
            if req.extra.get("badhost"):
                if req.tag in started:
                    bad("badhost-instance", f"{req.tag!r}: application started for a host outside server_names",
                        proto=plan.proto)
                path = "/" + req.tag.decode()
                recs = [r for r in world.logger.access_records if str(r[2].get("path", "")).startswith(path)]
                answered = _answered_404(plan, req)
                if answered and len(recs) != 1 and world.result == "returned":
                    bad("access-once", f"{req.tag!r}: {len(recs)} access-log records for a server-generated 404",
                        proto=plan.proto, count=min(len(recs), 2), kind="404")


def _conn_cause(world: World, host: AppHost, reqs: Dict[bytes, Req], req: Any) -> str:
    """recv-queue-full when some instance of the same connection sits in a send() that never returned
    while its receive queue holds max_app_queue_size unread messages (known finding F06)."""
    if req is None:
        return "other"
    for other in host.instances:
        oreq = reqs.get(other.tag)
        if oreq is not None and oreq.conn_index == req.conn_index \
                and len(other.leftover) >= world.config.max_app_queue_size:
            # either blocked in its own send(), or already returned with the server's put of the
            # disconnect stuck behind the unread messages (which also stalls the reader for siblings)
            return "recv-queue-full"
    return "other"


def _blocked_in_send(inst: Instance) -> str:
    if inst.sends and inst.sends[-1][3] in ("cancelled", "pending"):
        last = inst.sends[-1][2]
        final = last.get("type") == "http.response.body" and not last.get("more_body", False)
        return "final-send" if final else "send"
    return "no"


def _owed_disconnect(session: Session, req: Any, inst: Instance) -> bool:
    """The request or its connection ended while the instance was still alive."""
    for entry in inst.sends:
        m = entry[2]
        if m.get("type") == "http.response.body" and not m.get("more_body", False):
            if entry[3] == "ok":
                return True  # the application completed its response: end of request
            if len(inst.leftover) >= session.world.config.max_app_queue_size:
                return True  # stuck in the completing send behind a full receive queue (F06)
    conn = session.conns[req.conn_index].conn if req is not None else None
    if conn is None:
        return False
    times = [t for t in (conn.server.closed_at, conn.server.fin_arrived_at, conn.server.rst_arrived_at)
             if t is not None]
    end = inst.end_time if inst.end_time is not None else float("inf")
    return bool(times) and min(times) < end - 1e-9


def _reader_parked(session: Session, req: Any) -> bool:
    """HTTP/1 only: the server had already read bytes of a following request while this one was in
    progress.  h11 then pauses reading, so a client that goes away is invisible until a write fails;
    the property cannot demand a disconnect the server has no way to learn about."""
    if req is None:
        return True
    plan = session.conns[req.conn_index]
    if plan.proto != "h1":
        return False
    conn = plan.conn
    return plan.pipelined or (conn is not None and conn.server._rx_total > req.wire_end)


def _answered_404(plan: ConnPlan, req: Req) -> bool:
    """Did the client see the server-generated 404 for this request (so a stream existed)?"""
    if plan.proto == "h1":
        responses = plan.parser.responses
        return req.index < len(responses) and responses[req.index].status == 404
    st = plan.peer.streams.get(req.sid) if plan.peer else None
    return st is not None and st.status == 404
