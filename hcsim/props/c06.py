"""C06 - HTTP/1.x persistent-connection and pipelining safety."""
from __future__ import annotations

from typing import Any, Dict, List, Optional

from ..apps import AppHost, Instance
from ..core import Tape
from ..peers import h1 as h1peer
from ..runner import Outcome, Violation, finish_outcome
from ..session import ConnPlan, Req, Session, gen_session, make_opts
from ..world import World

ID = "C06"
DELTA = 0.5  # simulated seconds allowed between the last response byte and the server's close

MALFORMED = [
    b"GET /bad HTTP/1.1\r\nHost: example.test\r\nno-colon-here\r\n\r\n",
    b"GET /bad HTTP/1.1\r\nHost: example.test\r\nContent-Length: abc\r\n\r\n",
    b"G<T /bad HTTP/1.1\r\nHost: example.test\r\n\r\n",
    b"GET /bad HTTP/1.1\r\nHost: a\r\nHost: b\r\n\r\n",
]


def plan(tier: str) -> dict:
    return {
        "runs": 20000 if tier == "quick" else 900000,
        "budget": 150 if tier == "quick" else 900,
        "cases": [],
        "chunk": 40,
        "rule": "HTTP/1.0/1.1 connections carrying 1..5 requests, pipelined in one burst or sequential, with bodies "
        "(content-length/chunked), Connection: close/keep-alive, keep_alive_max_requests in {1,2,3,1000}, a "
        "malformed request at a tape-chosen position, every recv segmentation mode (all-at-once ... one byte), "
        "applications that answer before/after reading or leave the body unread; judged against a sequential "
        "model of a persistent connection using global event sequence numbers.",
        "assumptions": ["whether a request body that had fully arrived but was left unread by the application "
                        "counts as complete is not judged (either reuse or close is accepted there)"],
    }


def random_params(i: int, tier: str) -> dict:
    return {"worker": "asyncio" if i % 2 == 0 else "trio"}


def run(tape: Tape, params: dict) -> Outcome:
    world = World(tape, params["worker"])
    host = AppHost(world.sim, world.worker)
    world.app = host
    out = Outcome()
    cfg = world.config
    cfg.keep_alive_max_requests = tape.choice([1000, 1000, 1, 2, 3], "cfg.maxreq")
    cfg.keep_alive_timeout = 5.0
    cfg.max_app_queue_size = tape.choice([10, 10, 3, 1], "cfg.queue")
    opts = make_opts(protos=[1, 0], max_conns=2, max_reqs=5, pipeline=6, conn_headers=True, versions=True,
                     read_modes=[5, 2, 2], respond_when=[4, 3], statuses=[200, 200, 201, 404], head=True,
                     big=tape.chance(1, 10, "opt.big"), many_chunks=False, think=[0.0, 0.0, 0.01])

    def customize(tape: Tape, plan: ConnPlan, req: Req) -> None:
        req.resp["headers"] = [(b"x-echo", req.tag)] + [h for h in req.resp["headers"]]
        # rebuild the program with the echo header
        from ..session import response_program

        req.program = response_program(tape, opts, req.resp)

    session = gen_session(tape, world, host, opts, customize)
    # optionally splice a malformed request into a pipelined connection
    for plan in session.conns:
        if plan.pipelined and tape.chance(1, 5, "malformed"):
            # a client never sends anything after a request that asked to close (RFC 7230 6.6)
            closing_last = plan.reqs[-1].conn_close or plan.reqs[-1].version == b"1.0"
            pos = tape.draw(len(plan.reqs) + (0 if closing_last else 1), "malformed.pos")
            bad_wire = tape.choice(MALFORMED, "malformed.kind")
            _splice_malformed(plan, pos, bad_wire)
            session.sample["conns"][plan.index]["malformed_at"] = pos
    session.sample["maxreq"] = cfg.keep_alive_max_requests
    session.sample["queue"] = cfg.max_app_queue_size
    world.run(end_at=60.0)
    host.drain_leftovers()
    out.sample = session.sample
    _check(world, host, session, out)
    return finish_outcome(world, out)


def _splice_malformed(plan: ConnPlan, pos: int, bad_wire: bytes) -> None:
    """Rebuild the pipelined blob with a malformed request inserted before request `pos`."""
    wires = [r.wire for r in plan.reqs]
    blob = b"".join(wires[:pos]) + bad_wire + b"".join(wires[pos:])
    steps = plan.script.steps
    sent = [s for s in steps if s[0] == "send"]
    # keep the same number of pieces, re-cut proportionally
    total_old = sum(len(s[1]) for s in sent)
    new_steps: List[tuple] = []
    consumed = 0
    acc = 0
    for s in steps:
        if s[0] == "send":
            acc += len(s[1])
            end = len(blob) if acc >= total_old else int(acc * len(blob) / max(1, total_old))
            new_steps.append(("send", blob[consumed:end]))
            consumed = end
        else:
            new_steps.append(s)
    plan.script.steps = new_steps
    plan.notes["malformed_at"] = pos
    # offsets of the real requests shift
    offset = 0
    for i, r in enumerate(plan.reqs):
        if i == pos:
            offset += len(bad_wire)
        r.wire_start = offset
        offset += len(r.wire)
        r.wire_end = offset
    # the error response is one more response for the parser
    methods = [r.method for r in plan.reqs]
    methods.insert(pos, b"GET")
    plan.parser.methods = [m.upper() for m in methods]
    n_expected = len(methods)
    plan.script.steps = [(s[0], _at_least(n_expected), s[2]) if s[0] == "wait" else s for s in plan.script.steps]


def _at_least(n: int):
    def pred(script: Any) -> bool:
        p = script.parser
        return len(p.responses) >= n or p.error is not None

    return pred


def _send_seq_for_offset(conn: Any, offset: int) -> Optional[int]:
    for seq, _, cum in conn.server.send_marks:
        if cum >= offset:
            return seq
    return None


def _send_time_for_offset(conn: Any, offset: int) -> Optional[float]:
    for _, t, cum in conn.server.send_marks:
        if cum >= offset:
            return t
    return None


def _check(world: World, host: AppHost, session: Session, out: Outcome) -> None:
    def bad(rule: str, msg: str, **key: Any) -> None:
        out.violations.append(Violation(rule, msg, dict(key, worker=world.worker)))

    cfg = world.config
    by_tag: Dict[bytes, List[Instance]] = {}
    for inst in host.instances:
        by_tag.setdefault(inst.tag, []).append(inst)
    if world.result != "returned":
        out.notes.append(f"worker_serve ended with {world.result}")
    for plan in session.conns:
        conn = plan.conn
        if conn is None or conn.client.refused:
            continue
        parser: h1peer.ResponseParser = plan.parser
        mal = plan.notes.get("malformed_at")
        # the queue-full deadlock (known finding F06, C03/C07) makes a connection hang: classify
        stuck = [i for r in plan.reqs for i in by_tag.get(r.tag, [])
                 if len(i.leftover) >= cfg.max_app_queue_size]
        cause = "recv-queue-full" if stuck else "other"
        completed = 0
        for r in plan.reqs:
            for i in by_tag.get(r.tag, []):
                if any(e[2].get("type") == "http.response.body" and not e[2].get("more_body", False)
                       and e[3] == "ok" for e in i.sends):
                    completed += 1
        n_app_responses = len([r for r in parser.responses if r.header(b"x-echo") is not None])
        if world.worker == "trio" and not stuck and completed > n_app_responses and not _client_gone(conn):
            # trio only: every send() of the application returned, yet the tail of its response never
            # reached the wire - the reader closing the connection (send_eof) collided with the last
            # write waiting for the send lock (known finding F13)
            cause = "trio-close-race"
        if parser.error:
            bad("wire-wellformed", f"conn {plan.index}: response stream does not parse: {parser.error}")
            continue
        served: List[Req] = []
        close_expected_after: Optional[int] = None  # index in `served` after which the server must close
        ri = 0  # index into parser.responses
        prev_end_seq: Optional[int] = None
        prev_done_seq: Optional[int] = None
        n_inst = 0
        stop = False
        for k, req in enumerate(plan.reqs):
            if mal is not None and k == mal and not stop:
                # the malformed request must be answered 4xx + connection: close, then close
                if ri < len(parser.responses):
                    r = parser.responses[ri]
                    ri += 1
                    if not (400 <= r.status < 500):
                        bad("malformed-4xx", f"conn {plan.index}: malformed request answered {r.status}")
                    if b"close" not in [v.lower() for v in r.header_all(b"connection")]:
                        bad("announce-close", f"conn {plan.index}: error response for a malformed request "
                            f"lacks connection: close", reason="malformed")
                    stop = True
                    close_expected_after = ri
                else:
                    _incomplete(plan, parser, ri, "malformed request", cause, bad)
                    stop = True
            insts = by_tag.get(req.tag, [])
            if stop:
                if insts:
                    bad("processed-after-close", f"{req.tag!r}: application started although an earlier "
                        f"message closed the connection", reason="after-close")
                continue
            if len(insts) > 1:
                bad("one-instance", f"{req.tag!r}: {len(insts)} instances")
            if not insts:
                # never served: legitimate only if the connection ended first
                break
            inst = insts[0]
            n_inst += 1
            if prev_done_seq is not None and inst.start_seq < prev_done_seq:
                bad("serial", f"{req.tag!r}: application started (seq {inst.start_seq}) before the previous "
                    f"response was complete (its final send returned at seq {prev_done_seq})")
            prev_done_seq = None
            for entry in inst.sends:
                m = entry[2]
                if m.get("type") == "http.response.body" and not m.get("more_body", False) and entry[4]:
                    prev_done_seq = entry[4]
            # body isolation
            body = inst.body()
            if not req.body.startswith(body):
                bad("body-isolation", f"{req.tag!r}: instance received {len(body)} body bytes that are not a "
                    f"prefix of its own request body ({len(req.body)} bytes)")
            read_all = any(m.get("type") == "http.request" and not m.get("more_body", False)
                           for _, _, m in inst.received)
            if read_all and body != req.body:
                bad("body-isolation", f"{req.tag!r}: complete body differs from the request's")
            if ri >= len(parser.responses):
                _incomplete(plan, parser, ri, repr(req.tag), cause, bad)
                break
            r = parser.responses[ri]
            ri += 1
            echo = r.header(b"x-echo")
            if echo != req.tag:
                bad("response-order", f"conn {plan.index}: response {ri - 1} echoes {echo!r}, expected {req.tag!r} "
                    f"(status {r.status})")
            prev_end_seq = _send_seq_for_offset(conn, r.end)
            end_time = _send_time_for_offset(conn, r.end)
            announced = b"close" in [v.lower() for v in r.header_all(b"connection")]
            reasons = []
            if req.conn_close:
                reasons.append("client-close")
            if req.version == b"1.0":
                reasons.append("http10")
            if n_inst >= cfg.keep_alive_max_requests:
                reasons.append("max-requests")
            # request bytes not all received by the server when the response ended
            # hypercorn decides when the application's final send returns (or the instance ends)
            decide_seq = prev_done_seq if prev_done_seq is not None else inst.end_seq
            recv_total_at_end = _recv_total_before(world, conn, decide_seq)
            body_incomplete = recv_total_at_end < req.wire_end
            must_close = bool(reasons) or body_incomplete
            must_reuse = (not reasons) and read_all and (world.trigger_at is None or (end_time or 0) < world.trigger_at)
            nxt = _next_started(plan, by_tag, k, mal)
            last = k == len(plan.reqs) - 1 and (mal is None or mal <= k)
            if reasons and not announced:
                bad("announce-close", f"{req.tag!r}: response does not announce connection: close although "
                    f"{reasons}", reason=reasons[0])
            if must_close:
                if nxt:
                    bad("processed-after-close", f"{req.tag!r}: a later request was processed although the "
                        f"connection had to close ({reasons or ['request body incomplete']})",
                        reason=(reasons or ["body-incomplete"])[0])
                closed_at = conn.client.server_closed_at
                if closed_at is None or (end_time is not None and closed_at > end_time + DELTA + conn.s2c_latency):
                    bad("close-after-response", f"{req.tag!r}: server did not close within {DELTA}s after the "
                        f"response that had to close the connection ({reasons or ['request body incomplete']}; "
                        f"response end {end_time}, close seen {closed_at})",
                        reason=(reasons or ["body-incomplete"])[0], cause=cause)
                stop = True
            elif not must_reuse and not nxt and ri >= len(parser.responses) \
                    and conn.client.server_closed_at is not None:
                # undecided region (request fully arrived, application did not read it all): the
                # server chose to close after this response, which is admissible
                stop = True
            elif must_reuse and not last and not nxt and mal != k + 1:
                # a following pipelined request exists and nothing asked to close
                if _bytes_sent_after(plan, req) and not _client_gone(conn):
                    bad("reuse", f"{req.tag!r}: request and response complete, nobody asked to close, yet the "
                        f"next request was not served", cause=cause)
                    stop = True
        if mal is not None and mal == len(plan.reqs) and not stop:
            if ri < len(parser.responses):
                r = parser.responses[ri]
                ri += 1
                if not (400 <= r.status < 500):
                    bad("malformed-4xx", f"conn {plan.index}: malformed request answered {r.status}")
                if b"close" not in [v.lower() for v in r.header_all(b"connection")]:
                    bad("announce-close", f"conn {plan.index}: error response for a malformed request "
                        f"lacks connection: close", reason="malformed")
                stop = True
            elif n_inst == len(plan.reqs):
                _incomplete(plan, parser, ri, "malformed request", cause, bad)
        if n_inst > cfg.keep_alive_max_requests:
            bad("max-requests", f"conn {plan.index}: {n_inst} instances with keep_alive_max_requests="
                f"{cfg.keep_alive_max_requests}")
        if len(parser.responses) > ri and not stop:
            bad("extra-response", f"conn {plan.index}: {len(parser.responses)} responses, {ri} expected")
        if parser.current is not None and parser.state != "close-body" and not stuck:
            bad("truncated-response", f"conn {plan.index}: last response incomplete at end of run "
                f"(state {parser.state})", cause=cause)


def _incomplete(plan: ConnPlan, parser: Any, ri: int, what: str, cause: str, bad: Any) -> None:
    conn = plan.conn
    if _client_gone(conn):
        return
    bad("response-missing", f"conn {plan.index}: no complete response for {what} "
        f"(got {len(parser.responses)} responses, partial={parser.current is not None})", cause=cause)


def _client_gone(conn: Any) -> bool:
    return conn.client.rst_at is not None and conn.client.eof_at is None and conn.client.closed


def _recv_total_before(world: World, conn: Any, seq: Optional[int]) -> int:
    """How many client bytes the server had recv()'d before event `seq`."""
    total = 0
    for entry in world.sim.log:
        if seq is not None and entry[0] >= seq:
            break
        if entry[2] == "s.recv" and entry[3] == conn.id:
            total += entry[4]
    return total


def _next_started(plan: ConnPlan, by_tag: Dict[bytes, List[Instance]], k: int, mal: Optional[int]) -> bool:
    return any(by_tag.get(r.tag) for r in plan.reqs[k + 1:])


def _bytes_sent_after(plan: ConnPlan, req: Req) -> bool:
    return len(plan.conn.client.sent) >= req.wire_end + 1
