"""C18 - configured limits and worker recycling are enforced against any client."""
from __future__ import annotations

from typing import Any, Dict, List, Optional, Tuple

from ..apps import AppHost
from ..core import Tape
from ..peers import h1 as h1peer
from ..peers.h2 import H2Peer
from ..runner import Outcome, Violation, finish_outcome
from ..scen import Script, responses_at_least
from ..world import World

ID = "C18"
DELTA = 0.1
LIMITS = ["h11_incomplete", "h2_streams", "h2_header_list", "keepalive_h1", "keepalive_h2", "max_requests"]


def _cases() -> List[dict]:
    cases = []
    for worker in ("asyncio", "trio"):
        for L in (64, 200, 1000):
            for rel in (-20, 0, 1, 50, "double"):
                for mode in ("one", "two", "dribble"):
                    for prior in (0, 1):
                        cases.append({"worker": worker, "case": {"limit": "h11_incomplete", "L": L, "rel": rel,
                                                                 "mode": mode, "prior": prior, "shape": "one-header"}})
        for N in (0, 1, 2, 5):
            for k in (0, 1, 3):
                cases.append({"worker": worker, "case": {"limit": "h2_streams", "N": N, "extra": k}})
        for M in (100, 1000):
            for rel in (-80, 80, "double"):
                for shape in ("one-field", "many", "continuation"):
                    for opening in ("prior", "h2c"):
                        cases.append({"worker": worker, "case": {"limit": "h2_header_list", "M": M, "rel": rel,
                                                                 "shape": shape, "opening": opening}})
        for K in (1, 2, 3, 5):
            for pipelined in (False, True):
                cases.append({"worker": worker, "case": {"limit": "keepalive_h1", "K": K, "pipelined": pipelined}})
        for K in (1, 2, 3):
            for opening in ("prior", "h2c"):
                cases.append({"worker": worker, "case": {"limit": "keepalive_h2", "K": K, "opening": opening}})
        for R in (0, 1, 2, 5):
            for J in (0, 1, 3):
                for j in range(J + 1):
                    for conn_kind in ("h1", "h2", "h2c"):
                        cases.append({"worker": worker, "case": {"limit": "max_requests", "R": R, "J": J, "j": j,
                                                                 "per_conn": 1 + (R + j) % 3, "conn_kind": conn_kind}})
    return cases


def plan(tier: str) -> dict:
    return {
        "runs": 16000 if tier == "quick" else 900000,
        "budget": 150 if tier == "quick" else 900,
        "cases": _cases(),
        "chunk": 30,
        "rule": "Per limit: h11_max_incomplete_size {64,200,1000,16384} x head size {below, at, just above, far above} x "
        "arrival {one read, two reads, dribbled} x {first, second request of a connection} x head shape; "
        "h2_max_concurrent_streams {0,1,2,5} x excess {0,1,3} concurrent streams held open; h2_max_header_list_size "
        "{100,1000,65536} x block size around the limit x {one field, many fields, CONTINUATION} x {prior knowledge, h2c upgrade}; "
        "keep_alive_max_requests {1,2,3,5} sequential or pipelined on HTTP/1 and {1,2,3} on HTTP/2; max_requests "
        "{1,2,5} x jitter {0,1,3} x every jitter outcome (through the patched randint) with the requests spread over "
        "connections of 1..3 requests.  Judged against the limit table with exact counts and virtual instants.",
        "enumerated": ["every limit value x approach/hit/exceed x arrival shape x worker listed above"],
        "assumptions": ["HTTP/2 clients open streams only after the server's SETTINGS frame has arrived",
                        "a request head of exactly the limit, and header blocks within 64 bytes of "
                        "h2_max_header_list_size, are not judged (accounting conventions differ)"],
    }


def random_params(i: int, tier: str) -> dict:
    return {"worker": "asyncio" if i % 2 == 0 else "trio", "limit": LIMITS[(i // 2) % len(LIMITS)]}


def _get(tag: bytes, extra: bytes = b"") -> bytes:
    return b"GET /" + tag + b" HTTP/1.1\r\nHost: example.test\r\nx-tag: " + tag + b"\r\n" + extra + b"\r\n"


def _h2_headers(tag: bytes, extra: Optional[List[Tuple[bytes, bytes]]] = None) -> List[Tuple[bytes, bytes]]:
    return [(b":method", b"GET"), (b":scheme", b"http"), (b":authority", b"example.test"), (b":path", b"/" + tag),
            (b"x-tag", tag)] + list(extra or [])


def run(tape: Tape, params: dict) -> Outcome:
    case = params.get("case")
    if case is not None:
        tape = Tape(values=[])
        limit = case["limit"]
    else:
        limit = params["limit"]
        case = {}
    world = World(tape, params["worker"])
    host = AppHost(world.sim, world.worker)
    world.app = host
    world.config.keep_alive_timeout = 5.0
    out = Outcome()
    fn = {"h11_incomplete": _h11_incomplete, "h2_streams": _h2_streams, "h2_header_list": _h2_header_list,
          "keepalive_h1": _keepalive_h1, "keepalive_h2": _keepalive_h2, "max_requests": _max_requests}[limit]
    fn(tape, world, host, dict(case), out)
    return finish_outcome(world, out)


def _bad(out: Outcome, world: World, limit: str) -> Any:
    def bad(rule: str, msg: str, **key: Any) -> None:
        out.violations.append(Violation(rule, msg, dict(key, worker=world.worker, limit=limit)))

    return bad


# ---------------------------------------------------------------------------------------------
def _h11_incomplete(tape: Tape, world: World, host: AppHost, case: dict, out: Outcome) -> None:
    sim = world.sim
    bad = _bad(out, world, "h11_incomplete")
    L = case.get("L") or tape.choice([64, 200, 1000, 16384], "L")
    rel = case.get("rel") if "rel" in case else tape.choice([-20, 0, 1, 50, "double", -1, 2, 300], "rel")
    mode = case.get("mode") or tape.choice(["one", "two", "dribble"], "mode")
    prior = case.get("prior") if "prior" in case else tape.draw(2, "prior")
    shape = case.get("shape") or tape.choice(["one-header", "many-headers", "long-target"], "shape")
    world.config.h11_max_incomplete_size = L
    S = 2 * L if rel == "double" else L + rel
    base = _get(b"big")
    S = max(S, len(base) + 8)
    fill = S - len(base)
    if shape == "one-header":
        extra = b"x-f: " + b"a" * max(0, fill - 7) + b"\r\n"
    elif shape == "many-headers":
        extra = b""
        i = 0
        while len(extra) + 12 <= fill:
            extra += b"x%03d: bbb\r\n" % (i % 1000)
            i += 1
    else:
        extra = b""
    if shape == "long-target":
        head = b"GET /big?" + b"q" * max(0, fill - 1) + b" HTTP/1.1\r\nHost: example.test\r\nx-tag: big\r\n\r\n"
    else:
        head = _get(b"big", extra)
    S = len(head)
    parser = h1peer.ResponseParser()
    steps: List[tuple] = []
    if prior:
        parser.expect(b"GET")
        steps += [("send", _get(b"first")), ("wait", responses_at_least(1), 5.0), ("sleep", 0.01)]
    parser.expect(b"GET")
    steps.append(("mark", "big-start"))
    if mode == "one":
        steps.append(("send", head))
    elif mode == "two":
        cut = 1 + tape.draw(S - 1, "cut") if not case else max(1, min(S - 1, L + 5))
        steps += [("send", head[:cut]), ("sleep", 0.01), ("send", head[cut:])]
    else:
        piece = tape.choice([7, 1, 33, 500], "piece") if not case else max(1, L // 9)
        piece = max(piece, S // 300 + 1)
        for i in range(0, S, piece):
            steps += [("send", head[i:i + piece]), ("sleep", 0.002)]
    steps.append(("wait", responses_at_least(1 + prior), 5.0))
    steps.append(("wait", lambda sc: sc.ended, 1.0))
    script = Script(world, steps, parser)
    script.start_at(0.1)
    world.run(end_at=20.0)
    out.sample = {"worker": world.worker, "limit": "h11_incomplete", "L": L, "S": S, "mode": mode, "prior": prior,
                  "shape": shape}
    # what did the server see at each read boundary?
    conn = script.conn
    seq0 = script.marks.get("big-start", (0, 0.0))[0]
    sent_before = len(_get(b"first")) if prior else 0
    cum = 0
    max_incomplete = 0
    for e in sim.log:
        if e[2] == "s.recv" and e[3] == conn.id and e[4] > 0:
            cum += e[4]
            seen = cum - sent_before
            if 0 < seen < S:
                max_incomplete = max(max_incomplete, seen)
    started = any(i.tag == b"big" for i in host.instances)
    resp = parser.responses[prior] if len(parser.responses) > prior else None
    out.sample["max_incomplete"] = max_incomplete
    if world.result != "returned":
        bad("server-survives", f"worker_serve ended with {world.result}: {world.exception!r}")
    if max_incomplete > L:
        sim.probe("c18.h11.over_limit")
        if started:
            bad("h11-incomplete-reached-app", f"a request head of {S} bytes that was still incomplete after "
                f"{max_incomplete} bytes (limit {L}) reached the application", mode=mode)
        if resp is None or not (400 <= resp.status < 500):
            bad("h11-incomplete-4xx", f"head incomplete after {max_incomplete} bytes (limit {L}): answered "
                f"{resp.status if resp else None}, expected a 4xx", mode=mode)
        if conn.client.eof_at is None and conn.client.rst_at is None:
            bad("h11-incomplete-close", f"head incomplete after {max_incomplete} bytes (limit {L}): connection not "
                f"closed by the server", mode=mode)
    elif S <= L:
        sim.probe("c18.h11.within_limit")
        if not started or resp is None or resp.status != 200:
            bad("h11-within-limit-served", f"a request head of {S} bytes (limit {L}) was not served: "
                f"status {resp.status if resp else None}, application started {started}", mode=mode)


# ---------------------------------------------------------------------------------------------
def _h2_streams(tape: Tape, world: World, host: AppHost, case: dict, out: Outcome) -> None:
    sim = world.sim
    bad = _bad(out, world, "h2_streams")
    N = case["N"] if "N" in case else tape.choice([1, 2, 5, 0, 3], "N")
    extra = case["extra"] if "extra" in case else tape.choice([0, 1, 3], "extra")
    hold = tape.choice([0.5, 0.2], "hold")
    world.config.h2_max_concurrent_streams = N
    peer = H2Peer()
    peer.clock = lambda: sim.now
    first = [peer.new_stream() for _ in range(N + extra)]
    later = peer.new_stream()
    tags = {sid: b"s%d" % sid for sid in first + [later]}
    for sid in first:
        host.programs[tags[sid]] = [("recv_all",), ("pause", ("sleep", hold)), ("respond", 200, [], [b"ok-" + tags[sid]])]
    host.programs[tags[later]] = [("recv_all",), ("respond", 200, [], [b"ok-later"])]
    gap = tape.choice([0.0, 0.001], "open.gap")

    def open_first(sc: Script) -> None:
        for i, sid in enumerate(first):
            if gap:
                sim.after(gap * i, lambda sid=sid: None if sc.ended else sc.conn.client.send(
                    peer.headers(sid, _h2_headers(tags[sid]), end_stream=True)))
            else:
                sc.conn.client.send(peer.headers(sid, _h2_headers(tags[sid]), end_stream=True))

    def open_later(sc: Script) -> None:
        if not sc.ended and peer.goaway is None:
            sc.conn.client.send(peer.headers(later, _h2_headers(tags[later]), end_stream=True))
            sc.marks["later-sent"] = (sim.seq, sim.now)

    steps = [("send", peer.preface()), ("wait", lambda sc: peer.settings_frames > 0, 5.0), ("call", open_first),
             ("sleep", hold + 0.3), ("call", open_later),
             ("wait", lambda sc: peer.stream_done(later), 3.0), ("wait", lambda sc: False, 0.2)]
    script = Script(world, steps, peer)
    script.start_at(0.1)
    world.run(end_at=20.0)
    out.sample = {"worker": world.worker, "limit": "h2_streams", "N": N, "extra": extra, "hold": hold}
    if world.result != "returned":
        bad("server-survives", f"worker_serve ended with {world.result}: {world.exception!r}")
    advertised = peer.server_settings.get(3)
    if advertised != N:
        bad("h2-streams-advertised", f"SETTINGS_MAX_CONCURRENT_STREAMS advertised as {advertised}, configured {N}")
    insts = [i for i in host.instances if i.tag in tags.values()]
    # never more than N application instances of this connection at the same time
    events = []
    for i in insts:
        events.append((i.start_seq, 1))
        events.append((i.end_seq if i.end_seq is not None else 10 ** 12, -1))
    cur = peak = 0
    for _, d in sorted(events):
        cur += d
        peak = max(peak, cur)
    if peak > N:
        bad("h2-streams-exceeded", f"{peak} streams were being served concurrently, h2_max_concurrent_streams is {N}",
            extra=extra)
    started = {i.tag for i in insts}
    for idx, sid in enumerate(first):
        st = peer.streams.get(sid)
        if idx >= N:
            sim.probe("c18.h2.excess_stream")
            refused = (st is not None and st.reset is not None) or peer.goaway is not None
            if tags[sid] in started:
                bad("h2-streams-exceeded", f"stream {sid} (number {idx + 1} of {N} allowed) reached the application")
            elif not refused:
                bad("h2-streams-refused", f"excess stream {sid} was neither reset nor answered by GOAWAY")
        elif extra == 0:
            if st is None or not st.complete or st.status != 200:
                bad("h2-streams-within-served", f"stream {sid} ({idx + 1} of {N} allowed, none in excess) was not "
                    f"served: status {st.status if st else None}")
    if extra == 0 and N > 0 and "later-sent" in script.marks:
        st = peer.streams.get(later)
        if st is None or not st.complete or st.status != 200:
            bad("h2-streams-within-served", f"a stream opened after the first {N} had finished was not served "
                f"(status {st.status if st else None}, goaway {peer.goaway})")


def _hl_size(headers: List[Tuple[bytes, bytes]]) -> int:
    return sum(len(n) + len(v) + 32 for n, v in headers)


def _h2_header_list(tape: Tape, world: World, host: AppHost, case: dict, out: Outcome) -> None:
    sim = world.sim
    bad = _bad(out, world, "h2_header_list")
    M = case.get("M") or tape.choice([100, 1000, 65536, 300], "M")
    rel = case["rel"] if "rel" in case else tape.choice([-80, 80, "double", -200, 200, 1000], "rel")
    shape = case.get("shape") or tape.choice(["one-field", "many", "continuation"], "shape")
    world.config.h2_max_header_list_size = M
    target = 2 * M if rel == "double" else M + rel
    base = _h2_headers(b"big")
    headers = list(base)
    if shape in ("one-field", "continuation"):
        need = target - _hl_size(headers) - 32 - 3
        if need > 0:
            headers.append((b"x-f", bytes((97 + (i * 7) % 26) for i in range(need))))
    else:
        i = 0
        while _hl_size(headers) + 32 + 6 + 4 <= target:
            headers.append((b"x-%04d" % i, b"vvvv"))
            i += 1
    T = _hl_size(headers)
    peer = H2Peer()
    peer.clock = lambda: sim.now
    # the connection is opened with prior knowledge or as an HTTP/1.1 request upgraded to h2c (stream 1); the limit
    # belongs to the connection whichever way it came to be HTTP/2
    opening = case.get("opening") or tape.choice(["prior", "prior", "h2c"], "hl.opening")
    first_sid = peer.new_stream() if opening == "h2c" else None
    sid = peer.new_stream()
    after = peer.new_stream()
    host.programs[b"first"] = [("recv_all",), ("respond", 200, [], [b"ok"])]
    host.programs[b"big"] = [("recv_all",), ("respond", 200, [], [b"ok"])]
    host.programs[b"after"] = [("recv_all",), ("respond", 200, [], [b"ok"])]
    split = None
    if shape == "continuation":
        # a handful of CONTINUATION frames (servers may refuse floods of them whatever the block size)
        split = [max(tape.choice([50, 10, 1000], "split"), T // 20 + 1)] * 64

    def open_big(sc: Script) -> None:
        sc.conn.client.send(peer.headers(sid, headers, end_stream=True, split=split, huffman=False))

    def open_after(sc: Script) -> None:
        if not sc.ended and peer.goaway is None:
            sc.conn.client.send(peer.headers(after, _h2_headers(b"after"), end_stream=True))

    sink: Any = peer
    if opening == "h2c":
        from ..peers.h2 import H2cUpgradeParser

        first = _get(b"first", b"Connection: Upgrade, HTTP2-Settings\r\nUpgrade: h2c\r\nHTTP2-Settings: "
                     + peer.settings_payload_b64() + b"\r\n")
        peer.open_stream(first_sid)
        opening_steps: List[tuple] = [("send", first + peer.preface()),
                                      ("wait", lambda sc: sc.ended or peer.stream_done(first_sid), 3.0)]
        sink = H2cUpgradeParser(peer)
    else:
        opening_steps = [("send", peer.preface())]
    steps = opening_steps + [("wait", lambda sc: peer.settings_frames > 0, 5.0), ("call", open_big),
                             ("wait", lambda sc: peer.stream_done(sid) or peer.goaway is not None, 3.0),
                             ("call", open_after), ("wait", lambda sc: peer.stream_done(after), 2.0)]
    script = Script(world, steps, sink)
    script.start_at(0.1)
    world.run(end_at=20.0)
    out.sample = {"worker": world.worker, "limit": "h2_header_list", "M": M, "T": T, "shape": shape, "opening": opening}
    if opening == "h2c":
        sim.probe("c18.h2.header_list_on_upgraded_connection")
    if world.result != "returned":
        bad("server-survives", f"worker_serve ended with {world.result}: {world.exception!r}")
    advertised = peer.server_settings.get(6)
    if advertised != M:
        bad("h2-header-list-advertised", f"SETTINGS_MAX_HEADER_LIST_SIZE advertised as {advertised}, configured {M}")
    st = peer.streams.get(sid)
    started = any(i.tag == b"big" for i in host.instances)
    if T >= M + 64:
        sim.probe("c18.h2.oversized_block")
        if started:
            bad("h2-header-list-reached-app", f"a header block of {T} bytes (h2_max_header_list_size {M}) reached "
                f"the application", shape=shape)
        refused = (st is not None and st.reset is not None) or peer.goaway is not None
        if not started and not refused:
            bad("h2-header-list-refused", f"oversized header block ({T} > {M}) neither reset nor answered by GOAWAY",
                shape=shape)
    elif T <= M - 64:
        sim.probe("c18.h2.block_within_limit")
        if not started or st is None or st.status != 200:
            bad("h2-header-list-within-served", f"a header block of {T} bytes (limit {M}) was not served: status "
                f"{st.status if st else None}, goaway {peer.goaway}", shape=shape)


# ---------------------------------------------------------------------------------------------
def _keepalive_h1(tape: Tape, world: World, host: AppHost, case: dict, out: Outcome) -> None:
    sim = world.sim
    bad = _bad(out, world, "keepalive_h1")
    K = case.get("K") or tape.choice([1, 2, 3, 5, 4], "K")
    pipelined = case["pipelined"] if "pipelined" in case else tape.chance(1, 2, "pipelined")
    nsend = K + (case.get("more") if "more" in case else tape.choice([2, 0, 1, -1], "more")) if case.get("K") is None \
        else K + 2
    nsend = max(1, nsend)
    world.config.keep_alive_max_requests = K
    parser = h1peer.ResponseParser()
    tags = [b"r%d" % i for i in range(nsend)]
    steps: List[tuple] = []
    if pipelined:
        for t in tags:
            parser.expect(b"GET")
        steps.append(("send", b"".join(_get(t) for t in tags)))
        steps.append(("wait", lambda sc: sc.ended or len(parser.responses) >= nsend, 4.0))
    else:
        for i, t in enumerate(tags):
            def send_one(sc: Script, t: bytes = t) -> None:
                if not sc.ended:
                    parser.expect(b"GET")
                    sc.conn.client.send(_get(t))
                    sc.marks.setdefault("sent", []).append(t)

            steps.append(("call", send_one))
            steps.append(("wait", (lambda n: lambda sc: sc.ended or len(parser.responses) >= n)(i + 1), 4.0))
            steps.append(("sleep", 0.02))
    steps.append(("wait", lambda sc: sc.ended, 1.0))
    script = Script(world, steps, parser)
    script.start_at(0.1)
    world.run(end_at=30.0)
    out.sample = {"worker": world.worker, "limit": "keepalive_h1", "K": K, "sent": nsend, "pipelined": pipelined}
    if world.result != "returned":
        bad("server-survives", f"worker_serve ended with {world.result}: {world.exception!r}")
    served = [i.tag for i in host.instances if i.tag in tags]
    ok = [r for r in parser.responses if r.status == 200]
    want = min(K, nsend)
    if len(served) > K:
        bad("keepalive-exceeded", f"{len(served)} requests reached the application on one connection, "
            f"keep_alive_max_requests is {K}", proto="h1", pipelined=pipelined)
    if len(served) < want or len(ok) < want:
        bad("keepalive-premature", f"only {len(served)} requests served / {len(ok)} answered, the limit of {K} allows "
            f"{want} of the {nsend} sent", proto="h1", pipelined=pipelined)
    if nsend >= K and len(ok) >= K:
        sim.probe("c18.keepalive.h1.limit_hit")
        last = ok[K - 1]
        conn_hdr = [v.lower() for v in last.header_all(b"connection")]
        if b"close" not in conn_hdr:
            bad("keepalive-told", f"response number {K} (the last one allowed) does not say connection: close "
                f"({conn_hdr})", proto="h1")
        c = script.conn.client
        if c.eof_at is None and c.rst_at is None:
            bad("keepalive-closed", f"connection still open after {K} requests", proto="h1")


def _keepalive_h2(tape: Tape, world: World, host: AppHost, case: dict, out: Outcome) -> None:
    sim = world.sim
    bad = _bad(out, world, "keepalive_h2")
    K = case.get("K") or tape.choice([1, 2, 3, 4], "K")
    nsend = K + 3
    world.config.keep_alive_max_requests = K
    peer = H2Peer()
    peer.clock = lambda: sim.now
    sids = [peer.new_stream() for _ in range(nsend)]
    tags = {sid: b"s%d" % sid for sid in sids}
    # streams are opened one after the other: a burst that is on the wire before the server can say
    # anything cannot be "told to stop" in time and is not judged
    concurrent = False
    opening = case.get("opening") or tape.choice(["prior", "prior", "h2c"], "opening")
    sink: Any = peer
    if opening == "h2c":
        # the first request arrives as an HTTP/1.1 request that upgrades the connection: it is request number one
        from ..peers.h2 import H2cUpgradeParser

        first = _get(tags[sids[0]], b"Connection: Upgrade, HTTP2-Settings\r\nUpgrade: h2c\r\nHTTP2-Settings: "
                     + peer.settings_payload_b64() + b"\r\n")
        peer.open_stream(1)
        steps: List[tuple] = [("send", first + peer.preface()),
                              ("wait", lambda sc: sc.ended or peer.stream_done(1), 2.0), ("sleep", 0.02)]
        sink = H2cUpgradeParser(peer)
        rest = sids[1:]
    else:
        steps = [("send", peer.preface()), ("wait", lambda sc: peer.settings_frames > 0, 5.0)]
        rest = sids
    goaway_before: Dict[int, bool] = {}
    for sid in rest:
        def open_one(sc: Script, sid: int = sid) -> None:
            if not sc.ended:
                goaway_before[sid] = peer.goaway is not None
                sc.conn.client.send(peer.headers(sid, _h2_headers(tags[sid]), end_stream=True))

        steps.append(("call", open_one))
        if not concurrent:
            steps.append(("wait", (lambda sid: lambda sc: sc.ended or peer.stream_done(sid))(sid), 2.0))
            steps.append(("sleep", 0.02))
    steps.append(("wait", lambda sc: sc.ended, 1.0))
    script = Script(world, steps, sink)
    script.start_at(0.1)
    world.run(end_at=30.0)
    out.sample = {"worker": world.worker, "limit": "keepalive_h2", "K": K, "sent": nsend, "opening": opening}
    if world.result != "returned":
        bad("server-survives", f"worker_serve ended with {world.result}: {world.exception!r}")
    served = [i.tag for i in host.instances if i.tag in tags.values()]
    if len(served) > K + 1:
        bad("keepalive-exceeded", f"{len(served)} streams reached the application on one connection, "
            f"keep_alive_max_requests is {K} (one more allowed on HTTP/2)", proto="h2")
    done = [sid for sid in sids if peer.streams.get(sid) is not None and peer.streams[sid].complete
            and peer.streams[sid].status == 200]
    if len(done) < K:
        bad("keepalive-premature", f"only {len(done)} streams answered, the limit of {K} allows at least {K}",
            proto="h2")
    if len(served) >= K + 1:
        sim.probe("c18.keepalive.h2.limit_hit")
        if peer.goaway is None:
            bad("keepalive-told", f"{len(served)} streams served but the client was never told to go away",
                proto="h2")


# ---------------------------------------------------------------------------------------------
def _max_requests(tape: Tape, world: World, host: AppHost, case: dict, out: Outcome) -> None:
    sim = world.sim
    bad = _bad(out, world, "max_requests")
    R = case["R"] if "R" in case else tape.choice([1, 2, 5, 0, 3, 8], "R")
    J = case["J"] if "J" in case else tape.choice([0, 1, 3, 5], "J")
    j = case["j"] if "j" in case else tape.draw(J + 1, "j")
    per_conn = case.get("per_conn") or 1 + tape.draw(3, "per_conn")
    world.config.max_requests = R
    world.config.max_requests_jitter = J
    world.randint_value = j
    world.config.graceful_timeout = 1.0
    total = R + J + 3 if case else R + j + tape.choice([3, 0, 1, -1], "total.rel")
    total = max(1, total)
    scripts: List[Script] = []
    tags: List[bytes] = []
    n = 0
    ci = 0
    t = 0.1
    while n < total:
        k = min(per_conn, total - n)
        ctags = [b"c%dr%d" % (ci, i) for i in range(k)]
        conn_kind = case.get("conn_kind") or tape.choice(["h1", "h1", "h2", "h2c"], "conn_kind")
        if conn_kind in ("h2", "h2c"):
            peer = H2Peer()
            sids = [peer.new_stream() for _ in ctags]
            if conn_kind == "h2c":
                # the first request arrives as an HTTP/1.1 request that upgrades the connection (stream 1)
                from ..peers.h2 import H2cUpgradeParser

                first = _get(ctags[0], b"Connection: Upgrade, HTTP2-Settings\r\nUpgrade: h2c\r\nHTTP2-Settings: "
                             + peer.settings_payload_b64() + b"\r\n")
                peer.open_stream(1)
                steps = [("send", first + peer.preface()),
                         ("wait", (lambda peer: lambda sc: sc.ended or peer.stream_done(1))(peer), 2.0), ("sleep", 0.05)]
                sink: Any = H2cUpgradeParser(peer)
                rest = list(zip(sids[1:], ctags[1:]))
            else:
                steps = [("send", peer.preface())]
                sink = peer
                rest = list(zip(sids, ctags))
            for sid, tg in rest:
                steps.append(("call", (lambda sid, tg, peer: lambda sc: None if sc.ended else sc.conn.client.send(
                    peer.headers(sid, _h2_headers(tg), end_stream=True)))(sid, tg, peer)))
                steps.append(("wait", (lambda sid, peer: lambda sc: sc.ended or peer.stream_done(sid))(sid, peer), 2.0))
                steps.append(("sleep", 0.05))
            s = Script(world, steps, sink)
        else:
            parser = h1peer.ResponseParser()
            steps = []
            for i, tg in enumerate(ctags):
                steps.append(("call", (lambda tg, parser: lambda sc: None if sc.ended else (
                    parser.expect(b"GET"), sc.conn.client.send(_get(tg))))(tg, parser)))
                steps.append(("wait", (lambda m, parser: lambda sc: sc.ended or len(parser.responses) >= m)(i + 1, parser), 2.0))
                steps.append(("sleep", 0.05))
            s = Script(world, steps, parser)
        s.start_at(t)
        t += 0.1 * k + 0.1
        scripts.append(s)
        tags += ctags
        n += k
        ci += 1
    world.run(end_at=t + 5.0)
    out.sample = {"worker": world.worker, "limit": "max_requests", "R": R, "J": J, "j": j, "total": total,
                  "per_conn": per_conn}
    if world.result != "returned":
        bad("server-survives", f"worker_serve ended with {world.result}: {world.exception!r}")
    draws = [e for e in sim.log if e[2] == "randint"]
    if len(draws) != 1:
        bad("jitter-draw", f"the jitter was drawn {len(draws)} times")
    elif (draws[0][3], draws[0][4]) != (0, J):
        bad("jitter-range", f"jitter drawn from randint({draws[0][3]}, {draws[0][4]}), configured range is (0, {J})")
    insts = sorted((i for i in host.instances if i.tag in tags), key=lambda i: i.start_seq)
    lclose = next(((e[0], e[1]) for e in sim.log if e[2] == "l.close"), None)
    harness_trigger = world.trigger_at
    threshold = R + j + 1  # the request that takes the count beyond max_requests + jitter
    if total >= threshold:
        sim.probe("c18.max_requests.exceeded")
        if len(insts) < threshold:
            bad("recycle-premature", f"only {len(insts)} of {total} requests were taken; the worker may stop after "
                f"request number {threshold} (max_requests {R} + jitter {j} + 1)")
            return
        t_exceed = insts[threshold - 1].start_time
        if lclose is None or lclose[1] > t_exceed + DELTA:
            bad("recycle-late", f"request number {threshold} was taken at {t_exceed:.3f} but the worker stopped "
                f"accepting at {lclose[1] if lclose else None}")
        elif lclose[0] < insts[threshold - 1].start_seq:
            bad("recycle-early", f"the worker stopped accepting (seq {lclose[0]}) before request number {threshold} "
                f"was taken (max_requests {R} + jitter {j})")
        if len(insts) > threshold:
            # later requests only on connections that were already open and busy - with sequential clients none
            late = [i for i in insts[threshold:] if i.start_time > t_exceed + DELTA]
            if late:
                bad("recycle-late", f"{len(late)} requests were taken more than {DELTA}s after the worker had "
                    f"exceeded max_requests + jitter")
    else:
        sim.probe("c18.max_requests.below")
        if lclose is not None and harness_trigger is not None and lclose[1] < harness_trigger - 1e-9:
            bad("recycle-early", f"the worker stopped accepting at {lclose[1]:.3f} after only {len(insts)} requests "
                f"(max_requests {R} + jitter {j})")
        if len(insts) != total:
            bad("recycle-early", f"{len(insts)} of {total} requests served although the worker's limit "
                f"({R} + {j}) was not exceeded")
