"""C13 - protocol selection and upgrades lose no bytes and ignore segmentation."""
from __future__ import annotations

import base64
from typing import Any, Dict, List, Optional, Tuple

from ..apps import AppHost
from ..core import Tape
from ..peers import h1 as h1peer
from ..peers import ws as wsp
from ..peers.h2 import H2Peer, H2cUpgradeParser, PREFACE
from ..runner import Outcome, Violation, finish_outcome
from ..scen import Script
from ..world import World

ID = "C13"


def _h1_req(tag: bytes, extra: bytes = b"", body: bytes = b"") -> bytes:
    cl = b"Content-Length: %d\r\n" % len(body) if body else b""
    method = b"POST" if body else b"GET"
    return method + b" /" + tag + b" HTTP/1.1\r\nHost: example.test\r\nx-tag: " + tag + b"\r\n" + extra + cl + b"\r\n" + body


def _h2_headers(tag: bytes) -> List[Tuple[bytes, bytes]]:
    return [(b":method", b"GET"), (b":scheme", b"http"), (b":authority", b"example.test"), (b":path", b"/" + tag),
            (b"x-tag", tag)]


# every opening: name -> builder returning (bytes of the opening incl. trailing traffic, expectation, parser kind)
OPENINGS = ["plain", "plain-pipelined", "prior-knowledge", "alpn-h2", "alpn-http11", "alpn-none", "h2c", "h2c-empty-settings",
            "h2c-oddcase", "h2c-with-body", "websocket", "h2c-no-settings-header"]


def build_opening(name: str) -> Dict[str, Any]:
    """Returns dict(wire=bytes, alpn=..., expect=[(tag, scope_type, http_version)], kind=parser kind, peer=...)."""
    out: Dict[str, Any] = {"alpn": None}
    if name in ("plain", "alpn-http11", "alpn-none"):
        out["wire"] = _h1_req(b"a") + _h1_req(b"b", body=b"0123456789")
        out["expect"] = [(b"a", "http", "1.1"), (b"b", "http", "1.1")]
        out["kind"] = "h1"
        out["alpn"] = {"plain": None, "alpn-http11": "http/1.1", "alpn-none": "none"}[name]
        out["methods"] = [b"GET", b"POST"]
    elif name == "plain-pipelined":
        out["wire"] = _h1_req(b"a") + _h1_req(b"b") + _h1_req(b"c")
        out["expect"] = [(b"a", "http", "1.1"), (b"b", "http", "1.1"), (b"c", "http", "1.1")]
        out["kind"] = "h1"
        out["methods"] = [b"GET", b"GET", b"GET"]
    elif name in ("prior-knowledge", "alpn-h2"):
        peer = H2Peer()
        wire = peer.preface()
        for tag in (b"a", b"b"):
            wire += peer.headers(peer.new_stream(), _h2_headers(tag), end_stream=True)
        out.update(wire=wire, expect=[(b"a", "http", "2"), (b"b", "http", "2")], kind="h2", peer=peer,
                   alpn="h2" if name == "alpn-h2" else None, sids=[1, 3])
    elif name.startswith("h2c"):
        peer = H2Peer(initial_window=70000) if name == "h2c" else H2Peer()
        settings = peer.settings_payload_b64()
        upgrade = b"H2C" if name == "h2c-oddcase" else b"h2c"
        conn_hdr = b"Upgrade, HTTP2-Settings"
        if name == "h2c-empty-settings":
            settings = b""
        extra = b"Connection: " + conn_hdr + b"\r\nUpgrade: " + upgrade + b"\r\n"
        if name != "h2c-no-settings-header":
            extra += b"HTTP2-Settings: " + settings + b"\r\n"
        if name == "h2c-with-body":
            out["wire"] = _h1_req(b"a", extra=extra, body=b"payload") + _h1_req(b"b")
            out["expect"] = [(b"a", "http", "1.1"), (b"b", "http", "1.1")]
            out["kind"] = "h1"
            out["methods"] = [b"POST", b"GET"]
        else:
            wire = _h1_req(b"a", extra=extra)
            out["opening_len"] = len(wire)
            peer.open_stream(1)
            peer.next_sid = 3
            # preface, SETTINGS and a request on stream 3 ride directly behind the upgrade request
            wire += peer.preface() + peer.headers(peer.new_stream(), _h2_headers(b"b"), end_stream=True)
            out.update(wire=wire, expect=[(b"a", "http", "2"), (b"b", "http", "2")], kind="h2c", peer=peer, sids=[1, 3])
    elif name == "websocket":
        key = base64.b64encode(b"0123456789abcdef")
        wire = wsp.handshake_request(b"/a", key, tag=b"a")
        out["opening_len"] = len(wire)
        # RFC 6455 4.1: the client waits for the handshake response before it sends frames
        out.update(wire=wire, expect=[(b"a", "websocket", "1.1")], kind="ws", key=key,
                   after=wsp.frame(wsp.OP_TEXT, b"hello") + wsp.frame(wsp.OP_CLOSE, wsp.close_payload(1000)))
    else:
        raise KeyError(name)
    out.setdefault("opening_len", len(out["wire"]))
    return out


def _cases() -> List[dict]:
    cases = []
    for worker in ("asyncio", "trio"):
        for name in OPENINGS:
            n = build_opening(name)["opening_len"]
            for split in range(0, n):  # 0 = unsplit
                cases.append({"worker": worker, "case": {"opening": name, "split": split}})
    return cases


def plan(tier: str) -> dict:
    cases = _cases()
    return {
        "runs": 15000 if tier == "quick" else 1000000,
        "budget": 150 if tier == "quick" else 900,
        "cases": cases,
        "chunk": 40,
        "rule": "Twelve openings (plain, pipelined, prior-knowledge preface, TLS-stub ALPN h2 / http/1.1 / none, h2c "
        "upgrade with settings / empty settings / odd case / missing settings header / with a body, WebSocket "
        "upgrade), each followed by further traffic placed directly behind the opening bytes; every two-way split "
        "point of the opening is enumerated on both workers, the seeded runs use random k-way splits, one byte per "
        "read and delayed second parts. The protocol the client parser succeeds with, scope http_version/type and "
        "exactly-once answers to every request are compared with the table for the opening.",
        "enumerated": [f"{len(cases)} (opening, split point, worker) cases"],
        "assumptions": ["TLS record layer and ALPN negotiation are stubbed at selected_alpn_protocol()"],
    }


def random_params(i: int, tier: str) -> dict:
    return {"worker": "asyncio" if i % 2 == 0 else "trio"}


async def _ws_app(host: Any, inst: Any, receive: Any, send: Any) -> None:
    await host._recv(inst, receive)
    await host._send(inst, send, {"type": "websocket.accept"})
    while True:
        m = await host._recv(inst, receive)
        if m["type"] == "websocket.disconnect":
            return
        if m["type"] == "websocket.receive":
            await host._send(inst, send, {"type": "websocket.send", "text": "echo:" + (m.get("text") or "")})


def run(tape: Tape, params: dict) -> Outcome:
    case = params.get("case")
    if case is not None:
        tape = Tape(values=[])
        name = case["opening"]
    else:
        name = OPENINGS[tape.draw(len(OPENINGS), "opening")]
    world = World(tape, params["worker"])
    sim = world.sim
    host = AppHost(sim, world.worker)
    world.app = host
    out = Outcome()
    op = build_opening(name)
    world.alpn = op["alpn"]
    wire = op["wire"]
    host.programs[b"a"] = [("call", _ws_app)] if op["kind"] == "ws" else [("recv_all",), ("respond", 200, [(b"x-echo", b"a")], [b"resp-a"])]
    host.programs[b"b"] = [("recv_all",), ("respond", 200, [(b"x-echo", b"b")], [b"resp-b" * 50])]
    host.programs[b"c"] = [("recv_all",), ("respond", 200, [(b"x-echo", b"c")], [b"resp-c"])]
    steps: List[tuple] = []
    seg = 0
    if case is not None:
        split = case["split"]
        if split:
            steps = [("send", wire[:split]), ("sleep", 0.01), ("send", wire[split:])]
        else:
            steps = [("send", wire)]
        info = {"opening": name, "split": split, "worker": world.worker}
    else:
        mode = tape.weighted([3, 2, 2], "split.mode")
        if mode == 0:
            k = 1 + tape.draw(5, "split.k")
            pts = sorted({1 + tape.draw(len(wire) - 1, "split.pt") for _ in range(k)})
            prev = 0
            for p in pts + [len(wire)]:
                steps.append(("send", wire[prev:p]))
                steps.append(("sleep", tape.choice([0.0, 0.0005, 0.01, 0.2], "split.gap")))
                prev = p
        elif mode == 1:
            seg = 2
            steps = [("send", wire)]
        else:
            seg = 1
            steps = [("send", wire)]
        info = {"opening": name, "mode": mode, "worker": world.worker, "steps": len(steps)}

    def setup(conn: Any) -> None:
        conn.seg_mode = seg

    if op["kind"] == "h1":
        parser: Any = h1peer.ResponseParser()
        for m in op["methods"]:
            parser.expect(m)
        done = lambda sc: len(sc.parser.responses) >= len(op["methods"]) or sc.parser.error  # noqa: E731
    elif op["kind"] == "h2":
        parser = op["peer"]
        done = lambda sc: all(op["peer"].stream_done(s) for s in op["sids"])  # noqa: E731
    elif op["kind"] == "h2c":
        parser = H2cUpgradeParser(op["peer"])
        done = lambda sc: all(op["peer"].stream_done(s) for s in op["sids"]) or sc.parser.error  # noqa: E731
    else:
        parser = wsp.H1WSClient()
        done = lambda sc: sc.parser.ws is not None and sc.parser.ws.close is not None  # noqa: E731
    def release(sc: Script) -> None:
        sc.hold_flush = False

    steps.append(("call", release))
    if op.get("after"):
        steps.append(("wait", lambda sc: sc.parser.response is not None, 10.0))
        steps.append(("send", wsp.frame(wsp.OP_TEXT, b"hello")))
        steps.append(("wait", lambda sc: sc.parser.ws is not None and len(sc.parser.ws.messages) >= 1, 10.0))
        steps.append(("send", wsp.frame(wsp.OP_CLOSE, wsp.close_payload(1000))))
    steps.append(("wait", done, 10.0))
    script = Script(world, steps, parser, setup=setup)
    script.hold_flush = True  # no SETTINGS ACK / pong in the middle of the client's own opening bytes
    script.start_at(0.1)
    world.run(end_at=20.0)
    host.drain_leftovers()
    out.sample = info
    _check(world, host, name, op, script, out)
    return finish_outcome(world, out)


def _check(world: World, host: AppHost, name: str, op: Dict[str, Any], script: Script, out: Outcome) -> None:
    def bad(rule: str, msg: str, **key: Any) -> None:
        out.violations.append(Violation(rule, msg, dict(key, worker=world.worker, opening=name)))

    if world.result != "returned":
        bad("internal-error", f"worker_serve ended with {world.result}: {world.exception!r}")
    if world.loop_exceptions:
        bad("internal-error", f"event-loop exception handler called: {world.loop_exceptions[:1]}")
    # scopes: the protocol is the one the opening dictates, every request exactly once
    seen: Dict[bytes, list] = {}
    for inst in host.instances:
        seen.setdefault(inst.tag, []).append(inst)
    for tag, scope_type, version in op["expect"]:
        insts = seen.get(tag, [])
        if len(insts) != 1:
            bad("exactly-once", f"request {tag!r} started {len(insts)} application instances (expected one)")
            continue
        sc = insts[0].scope_snapshot
        if sc.get("type") != scope_type or sc.get("http_version") != version:
            bad("protocol", f"request {tag!r}: scope type/http_version {sc.get('type')}/{sc.get('http_version')}, "
                f"the opening dictates {scope_type}/{version}")
    extra = [t for t in seen if t not in {e[0] for e in op["expect"]}]
    if extra:
        bad("exactly-once", f"application instances for requests never sent: {extra}")
    # what the client sees
    if op["kind"] == "h1":
        p = script.parser
        if p.error:
            bad("client-protocol", f"HTTP/1 client parser failed: {p.error}")
        statuses = [r.status for r in p.responses]
        echoes = [r.header(b"x-echo") for r in p.responses]
        want = [e[0] for e in op["expect"]]
        if echoes != want or any(s != 200 for s in statuses):
            bad("answers", f"responses {list(zip(statuses, echoes))} do not answer {want} once each, in order")
        if p.leftover:
            bad("answers", f"{len(p.leftover)} stray bytes after the responses")
    elif op["kind"] in ("h2", "h2c"):
        peer: H2Peer = op["peer"]
        if op["kind"] == "h2c":
            up = script.parser
            if up.error or not up.switched:
                bad("client-protocol", f"h2c upgrade not answered 101 (status {up.status}, error {up.error})")
                return
        if peer.errors or peer.flow_violations:
            bad("client-protocol", f"HTTP/2 client errors {peer.errors[:1]} {peer.flow_violations[:1]}")
        for sid, (tag, _, _) in zip(op["sids"], op["expect"]):
            st = peer.streams.get(sid)
            if st is None or not st.complete or st.status != 200:
                bad("answers", f"stream {sid} ({tag!r}) not answered completely (status {st.status if st else None}, "
                    f"ended {st.ended if st else None})")
            else:
                echo = [v for n, v in st.final_headers if n == b"x-echo"]
                if echo != [tag]:
                    bad("answers", f"stream {sid} answered {echo}, expected {tag!r}")
        others = [sid for sid, st in peer.streams.items() if sid not in op["sids"] and (st.header_blocks or st.data)]
        if others:
            bad("answers", f"responses on streams the client never opened: {others}")
        if peer.goaway is not None and peer.goaway[1] != 0:
            bad("client-protocol", f"GOAWAY with error code {peer.goaway[1]}")
    else:
        p = script.parser
        if p.response is None or p.response.status != 101:
            bad("client-protocol", f"websocket upgrade answered {p.response.status if p.response else None}")
            return
        token = p.response.header(b"sec-websocket-accept")
        if token != wsp.accept_token(op["key"]):
            bad("answers", "wrong sec-websocket-accept token")
        msgs = [m.as_tuple() for m in p.ws.messages]
        if msgs != [("text", "echo:hello")]:
            bad("answers", f"websocket frames sent behind the handshake were lost or duplicated: echoes {msgs}")
        if p.ws.close is None or p.ws.close[0] != 1000:
            bad("answers", f"close frame behind the handshake not answered (close seen {p.ws.close})")
