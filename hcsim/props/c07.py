"""C07 - idle connections time out, busy ones do not, dead ones are released."""
from __future__ import annotations

from typing import Any, Dict, List, Optional, Tuple

from ..apps import AppHost, Instance
from ..core import Tape
from ..peers import h1 as h1peer
from ..peers.h2 import H2Peer
from ..runner import Outcome, Violation, finish_outcome
from ..scen import Script, responses_at_least
from ..world import World

ID = "C07"
EPS = 1e-6
DELTA = 0.1  # promptness bound (simulated seconds) for release after peer loss / termination
TIMEOUTS = [0.5, 1.0, 2.0, 5.0]


def plan(tier: str) -> dict:
    return {
        "runs": 30000 if tier == "quick" else 1000000,
        "budget": 150 if tier == "quick" else 900,
        "cases": [],
        "chunk": 40,
        "rule": "Session histories on HTTP/1.1 and HTTP/2 connections: requests (fast, slow applications, "
        "server-generated 404), pauses drawn from a grid around keep_alive_timeout (T/2, T-eps, T, T+eps, 2T), "
        "partial request heads dribbled during idle periods, client FIN/RST/close at a tape-chosen phase "
        "(including behind a parked pipelined request), shutdown while idle; all keep_alive_timeout values of "
        "{0.5,1,2,5}. Close instants are compared with the admissible window computed from observed idle and "
        "busy intervals; handler tasks and sockets must be gone within 0.1 s of peer loss once applications "
        "returned.",
        "enumerated": ["pause grid {0, T/2, T-1e-3, T, T+1e-3, 2T} x keep_alive_timeout {0.5,1,2,5}"],
        "assumptions": ["applications return as soon as they see the disconnect"],
    }


def random_params(i: int, tier: str) -> dict:
    return {"worker": "asyncio" if i % 2 == 0 else "trio"}


def _get(tag: bytes, host: bytes = b"example.test", extra: bytes = b"") -> bytes:
    return b"GET /" + tag + b" HTTP/1.1\r\nHost: " + host + b"\r\nx-tag: " + tag + b"\r\n" + extra + b"\r\n"


class ConnInfo:
    def __init__(self, index: int, proto: str) -> None:
        self.index = index
        self.proto = proto
        self.script: Optional[Script] = None
        self.tags: List[bytes] = []
        self.error_tags: List[bytes] = []
        self.loss: Optional[str] = None
        self.history: List[Any] = []
        self.peer: Optional[H2Peer] = None
        self.pipelined_pair = False
        self.reset_tags: List[bytes] = []
        self.reset_offsets: Dict[bytes, int] = {}


def run(tape: Tape, params: dict) -> Outcome:
    world = World(tape, params["worker"])
    sim = world.sim
    host = AppHost(sim, world.worker)
    world.app = host
    out = Outcome()
    cfg = world.config
    T = tape.choice(TIMEOUTS, "cfg.keepalive")
    cfg.keep_alive_timeout = T
    cfg.graceful_timeout = 1.0
    cfg.server_names = ["example.test"]
    grid = [0.0, T / 2, T - 1e-3, T, T + 1e-3, 2 * T]
    conns: List[ConnInfo] = []
    nconn0, npos = tape.draw_count(2, "nconn")
    trigger_at: Optional[float] = None
    for ci in range(1 + nconn0):
        tape.span_begin(npos)
        proto = ["h1", "h2"][tape.weighted([3, 2], "conn.proto")]
        info = ConnInfo(ci, proto)
        lat = tape.choice([0.001, 0.0001, 0.01], "conn.lat")
        seg = tape.choice([0, 0, 1], "conn.seg")

        def setup(conn: Any, lat: float = lat, seg: int = seg) -> None:
            conn.c2s_latency = conn.s2c_latency = lat
            conn.seg_mode = seg

        steps: List[tuple] = []
        nphase0, ppos = tape.draw_count(4, "conn.nphase")
        if proto == "h1":
            parser = h1peer.ResponseParser()
            nresp = 0
            for pi in range(1 + nphase0):
                tape.span_begin(ppos)
                tag = b"c%dp%d" % (ci, pi)
                kind = tape.weighted([4, 2, 2, 1, 1, 1], "phase.kind")  # ok, slow, badhost, partial, pair, pair-partial
                pause = tape.choice(grid, "phase.pause")
                if kind == 0:
                    steps.append(("send", _get(tag)))
                    parser.expect(b"GET")
                    nresp += 1
                    info.tags.append(tag)
                    steps.append(("wait", responses_at_least(nresp), 30.0))
                    info.history.append(("ok", pause))
                elif kind == 1:
                    d = tape.choice([T / 2, T + 0.25, 3 * T], "phase.slow")
                    host.programs[tag] = [("recv_all",), ("pause", ("sleep", d)), ("respond", 200, [], [b"slow"])]
                    steps.append(("send", _get(tag)))
                    parser.expect(b"GET")
                    nresp += 1
                    info.tags.append(tag)
                    steps.append(("wait", responses_at_least(nresp), 60.0))
                    info.history.append(("slow", d, pause))
                elif kind == 2:
                    steps.append(("send", _get(tag, host=b"other.test")))
                    parser.expect(b"GET")
                    nresp += 1
                    info.error_tags.append(tag)
                    steps.append(("wait", responses_at_least(nresp), 30.0))
                    info.history.append(("badhost", pause))
                elif kind == 3:
                    wire = _get(tag)
                    cutpos = 1 + tape.draw(len(wire) - 2, "phase.partialcut")
                    steps.append(("send", wire[:cutpos]))
                    info.history.append(("partial", cutpos, pause))
                    steps.append(("sleep", pause))
                    steps.append(("send", wire[cutpos:]))
                    parser.expect(b"GET")
                    nresp += 1
                    info.tags.append(tag)
                    steps.append(("wait", responses_at_least(nresp), 30.0))
                    pause = tape.choice(grid, "phase.pause2")
                elif kind == 5:
                    # the first bytes of a second request arrive while the first is still being served,
                    # then the client goes silent for `pause` before it completes the head
                    tag2 = tag + b"b"
                    d = tape.choice([0.05, T / 2], "phase.pairslow")
                    host.programs[tag] = [("recv_all",), ("pause", ("sleep", d)), ("respond", 200, [], [b"first"])]
                    wire2 = _get(tag2)
                    cutpos = 1 + tape.draw(len(wire2) - 2, "phase.partialcut")
                    steps.append(("send", _get(tag) + wire2[:cutpos]))
                    parser.expect(b"GET")
                    nresp += 1
                    info.tags.append(tag)
                    steps.append(("wait", responses_at_least(nresp), 30.0))
                    info.history.append(("pair-partial", d, cutpos, pause))
                    steps.append(("sleep", pause))
                    steps.append(("send", wire2[cutpos:]))
                    parser.expect(b"GET")
                    nresp += 1
                    info.tags.append(tag2)
                    steps.append(("wait", responses_at_least(nresp), 30.0))
                    pause = tape.choice(grid, "phase.pause2")
                else:
                    tag2 = tag + b"b"
                    d = tape.choice([0.05, T / 2], "phase.pairslow")
                    host.programs[tag] = [("recv_all",), ("pause", ("sleep", d)), ("respond", 200, [], [b"first"])]
                    if tape.chance(1, 3, "phase.pairstream"):
                        # event-stream style first request: stops, response unfinished, when told the client has gone
                        host.programs[tag] = [("recv_all",), ("stream_until_disconnect", 8, max(0.02, d / 8))]
                    steps.append(("send", _get(tag) + _get(tag2)))
                    parser.expect(b"GET")
                    parser.expect(b"GET")
                    nresp += 2
                    info.tags += [tag, tag2]
                    info.pipelined_pair = True
                    steps.append(("wait", responses_at_least(nresp), 30.0))
                    info.history.append(("pair", d, pause))
                if pause:
                    steps.append(("sleep", pause))
                tape.span_end()
            script = Script(world, steps, parser, setup=setup)
        else:
            peer = H2Peer()
            info.peer = peer
            # a prior-knowledge connection that never opens a stream is idle from the start
            nostreams = tape.chance(1, 6, "h2.nostreams")
            # the connection may also begin as an HTTP/1.1 request that upgrades to h2c (served as stream 1)
            h2c = (not nostreams) and tape.chance(1, 4, "h2.opening.h2c")
            sink: Any = peer
            if nostreams:
                steps.append(("send", peer.preface()))
                info.history.append(("no-streams",))
            for pi in range(0 if nostreams else 1 + nphase0):
                tape.span_begin(ppos)
                tag = b"c%dp%d" % (ci, pi)
                # ok, slow, badhost, two concurrent, unusable :path (400 made by the protocol), reset by the client
                kind = tape.weighted([8, 4, 4, 2, 2, 2], "phase.kind2")
                pause = tape.choice(grid, "phase.pause")
                sids = [peer.new_stream()]
                tags = [tag]
                hostname = b"example.test"
                if kind == 1:
                    d = tape.choice([T / 2, T + 0.25, 3 * T], "phase.slow")
                    host.programs[tag] = [("recv_all",), ("pause", ("sleep", d)), ("respond", 200, [], [b"slow"])]
                    info.history.append(("slow", d, pause))
                elif kind == 2:
                    hostname = b"other.test"
                    info.history.append(("badhost", pause))
                elif kind == 3:
                    sids.append(peer.new_stream())
                    tags.append(tag + b"b")
                    d = tape.choice([0.05, T + 0.25], "phase.pairslow")
                    host.programs[tag] = [("recv_all",), ("pause", ("sleep", d)), ("respond", 200, [], [b"first"])]
                    info.history.append(("two-streams", d, pause))
                elif kind == 4:
                    info.history.append(("badpath", pause))
                elif kind == 5:
                    # the client gives up on the only open stream: RST_STREAM while the application is at work
                    d = tape.choice([0.05, T / 2, T + 0.25], "phase.rstslow")
                    rst_after = tape.choice([0.0, 0.01, T / 4], "phase.rstafter")
                    after_reset = tape.choice(["respond-late", "return-on-disconnect"], "phase.rstapp")
                    if after_reset == "respond-late":
                        host.programs[tag] = [("recv_all",), ("pause", ("sleep", d)), ("respond", 200, [], [b"late"])]
                    else:
                        host.programs[tag] = [("recv_all",), ("wait_disconnect",), ("return",)]
                    info.history.append(("client-reset", after_reset, d, rst_after, pause))
                    info.reset_tags.append(tag)
                else:
                    info.history.append(("ok", pause))
                if kind in (2, 4):
                    info.error_tags += tags
                else:
                    info.tags += tags
                path_suffix = b"-caf\xc3\xa9" if kind == 4 else b""

                def open_streams(sc: Script, sids: List[int] = sids, tags: List[bytes] = tags,
                                 hostname: bytes = hostname, peer: H2Peer = peer, path_suffix: bytes = path_suffix) -> None:
                    for sid, t in zip(sids, tags):
                        sc.conn.client.send(peer.headers(sid, [
                            (b":method", b"GET"), (b":scheme", b"http"), (b":authority", hostname),
                            (b":path", b"/" + t + path_suffix), (b"x-tag", t)], end_stream=True))

                if pi == 0 and h2c and kind in (0, 1):
                    from ..peers.h2 import H2cUpgradeParser

                    world.sim.probe("c07.h2c_opening")
                    peer.open_stream(sids[0])
                    steps.append(("send", _get(tag, extra=b"Connection: Upgrade, HTTP2-Settings\r\nUpgrade: h2c\r\n"
                                               b"HTTP2-Settings: " + peer.settings_payload_b64() + b"\r\n")
                                  + peer.preface()))
                    sink = H2cUpgradeParser(peer)
                    info.history.append(("h2c-upgrade",))
                else:
                    if pi == 0:
                        steps.append(("send", peer.preface()))
                    steps.append(("call", open_streams))
                if kind == 5:
                    def reset_it(sc: Script, sid: int = sids[0], peer: H2Peer = peer, tag: bytes = tag,
                                 info: ConnInfo = info) -> None:
                        if not sc.ended and not peer.stream_done(sid):
                            sc.conn.client.send(peer.rst_stream(sid, 8))
                            info.reset_offsets[tag] = len(sc.conn.client.sent)
                            world.sim.probe("c07.h2.client_reset_only_stream")

                    if rst_after:
                        steps.append(("sleep", rst_after))
                    steps.append(("call", reset_it))
                    steps.append(("sleep", 0.01))
                else:
                    steps.append(("wait", (lambda sids, peer: lambda sc: all(peer.stream_done(s) for s in sids))(sids, peer), 60.0))
                if pause:
                    steps.append(("sleep", pause))
                tape.span_end()
            script = Script(world, steps, sink, setup=setup)
        # how the history ends: silence (idle expiry), peer loss, or worker shutdown while idle
        ending = tape.weighted([4, 2, 2, 2, 2, 1], "conn.ending")
        if ending == 0:
            script.steps.append(("wait", lambda sc: False, 4 * T + 2))
            info.loss = None
        elif ending in (1, 2, 3):
            kind = ["fin", "rst", "close"][ending - 1]
            # peer loss at a tape-chosen step of the history
            idx = tape.draw(len(script.steps) + 1, "loss.at")
            cut = script.steps[:idx]
            delay = tape.choice([0.0, 0.0, 0.01], "loss.delay")
            if delay:
                cut.append(("sleep", delay))
            cut.append((kind,))
            cut.append(("wait", lambda sc: False, 4 * T + 2))
            script.steps = cut
            info.loss = kind
        elif ending == 5:
            # a failing server write (the client's host vanished): the k-th send raises EPIPE
            k = 2 + tape.draw(8, "loss.writeerr.at")
            prev_setup = script.setup

            def setup_err(conn: Any, k: int = k, prev: Any = prev_setup) -> None:
                prev(conn)
                conn.fail_send_at = k

            script.setup = setup_err
            script.steps.append(("wait", lambda sc: False, 4 * T + 2))
            info.loss = "write_err"
        else:
            script.steps.append(("wait", lambda sc: False, 4 * T + 2))
            if trigger_at is None:
                trigger_at = 0.1 + tape.choice([0.3, T / 2, T + 0.5, 2.5 * T], "life.trigger.at")
        info.script = script
        script.start_at(0.1 + 0.011 * ci)
        conns.append(info)
        tape.span_end()
    ws: Optional[Dict[str, Any]] = None
    if tape.chance(1, 3, "ws.conn"):
        # an open WebSocket is not an idle connection, however long nothing is said on it
        from ..peers import ws as wsp
        from ..wsgen import WSSession, app_ws_echo, build_ws_script

        carrier = ["h1", "h2"][tape.draw(2, "ws.carrier")]
        sess = WSSession(carrier, b"wsk")
        host.programs[b"wsk"] = [("call", app_ws_echo())]
        pause = tape.choice([T / 2, T + 0.25, 3 * T], "ws.pause")
        ending = tape.choice(["close-frame", "tcp", "rst"], "ws.ending")
        ops: List[tuple] = [("frames", wsp.frame(wsp.OP_TEXT, b"first")),
                            ("wait", lambda sc: sess.ws is not None and len(sess.ws.messages) >= 1, 2.0),
                            ("call", lambda sc: _sibling_get(sc, sess)),
                            ("wait", lambda sc: _sibling_done(sess), 2.0),
                            ("mark", "open"), ("sleep", pause), ("mark", "after-pause"),
                            ("frames", wsp.frame(wsp.OP_TEXT, b"second")),
                            ("wait", lambda sc: sess.ws is not None and len(sess.ws.messages) >= 2, 2.0),
                            ("mark", "echoed")]
        if ending == "close-frame":
            ops += [("close", 1000, b""), ("wait", lambda sc: sess.ws is not None and sess.ws.close is not None, 2.0),
                    ("mark", "closing"), ("sleep", 0.05), ("tcpclose",)]
        elif ending == "tcp":
            ops += [("mark", "closing"), ("tcpclose",)]
        else:
            ops += [("mark", "closing"), ("rst",)]
        wscript = build_ws_script(world, tape, sess, b"/wsk", ops, None)
        wscript.start_at(0.1 + 0.011 * len(conns))
        ws = {"sess": sess, "script": wscript, "pause": pause, "ending": ending, "carrier": carrier}
    if trigger_at is not None:
        sim.at(trigger_at, world.trigger_shutdown)
        sim.fault("life.shutdown_at_phase")
    world.run(end_at=120.0)
    host.drain_leftovers()
    if ws is not None:
        _check_ws(world, host, ws, T, out)
    out.sample = {"worker": world.worker, "T": T, "trigger_at": trigger_at,
                  "conns": [{"proto": c.proto, "history": c.history, "loss": c.loss} for c in conns]}
    _check(world, host, conns, T, out)
    return finish_outcome(world, out)


# ---------------------------------------------------------------------------------------------
def _reset_times(sim: Any, info: ConnInfo, conn: Any) -> Dict[bytes, float]:
    """When the server read the client's RST_STREAM of a stream (the request is over from then on)."""
    times: Dict[bytes, float] = {}
    if not info.reset_offsets:
        return times
    cum = 0
    marks = []
    for e in sim.log:
        if e[2] == "s.recv" and e[3] == conn.id and e[4] > 0:
            cum += e[4]
            marks.append((cum, e[1]))
    for tag, off in info.reset_offsets.items():
        for c, t in marks:
            if c >= off:
                times[tag] = t
                break
    return times


def _busy_intervals(host: AppHost, info: ConnInfo, resets: Optional[Dict[bytes, float]] = None) -> List[Tuple[float, float]]:
    out = []
    for inst in host.instances:
        if inst.tag in info.tags:
            if resets and inst.tag in resets and resets[inst.tag] < inst.start_time:
                continue  # over before the application was even started
            if resets and inst.tag in resets:
                # reset by the client: nothing is in progress once the server has read the RST_STREAM
                end = None
                for entry in inst.sends:
                    m = entry[2]
                    if m.get("type") == "http.response.body" and not m.get("more_body", False) and entry[5] is not None:
                        end = entry[5]
                out.append((inst.start_time, min(resets[inst.tag], end if end is not None else float("inf"))))
                continue
            end = None
            for entry in inst.sends:
                m = entry[2]
                if m.get("type") == "http.response.body" and not m.get("more_body", False) and entry[5] is not None:
                    end = entry[5]
            if end is None:
                end = inst.end_time if inst.end_time is not None else float("inf")
            out.append((inst.start_time, end))
    return sorted(out)


def _check(world: World, host: AppHost, conns: List[ConnInfo], T: float, out: Outcome) -> None:
    def bad(rule: str, msg: str, **key: Any) -> None:
        out.violations.append(Violation(rule, msg, dict(key, worker=world.worker)))

    sim = world.sim
    trigger = world.trigger_at
    for info in conns:
        conn = info.script.conn
        if conn is None or conn.client.refused or conn.accepted_at is None:
            continue
        srv = conn.server
        t_close = srv.closed_at
        t_err = next((e[1] for e in sim.log if e[2] == "s.senderr" and e[3] == conn.id), None)
        t_loss = min([t for t in (srv.fin_arrived_at, srv.rst_arrived_at, t_err) if t is not None], default=None)
        busy = _busy_intervals(host, info, _reset_times(sim, info, conn))
        if t_close is not None:
            # a request whose head completes in the very instant the idle timer fires has no defined
            # order with the close; instances that only start at or after the close are not "in progress"
            busy = [(s, e) for s, e in busy if s < t_close - EPS]
        recvs = [e[1] for e in sim.log if e[2] == "s.recv" and e[3] == conn.id and e[4] > 0]
        # server-generated error responses: time of the write that carried them
        err_times = _error_response_times(info, conn)
        handler = world.handlers.get(conn.id)
        # a stream that answered by itself (404 for an unknown server name) is never closed by the
        # protocol (known finding F10): everything that later goes wrong on this connection is its doing
        key = dict(proto=info.proto, cause="error-response-stream" if err_times else "other")
        # ---- rule B: never closed by the timer while a request is in progress
        if t_close is not None and (t_loss is None or t_close < t_loss) and (trigger is None or t_close < trigger):
            for (s, e) in busy:
                if s - EPS <= t_close < e - EPS:
                    bad("closed-while-busy", f"conn {info.index}: server closed at {t_close:.6f} while a request "
                        f"was in progress [{s:.6f}, {e:.6f})", **key)
                    break
        # ---- rule A/C: idle expiry window (only histories without peer loss and before any trigger)
        last_busy_end = max([e for _, e in busy], default=None)
        idle_start = conn.accepted_at if last_busy_end is None else last_busy_end
        kind = "accept" if last_busy_end is None else "response"
        if err_times and (last_busy_end is None or max(err_times) > last_busy_end):
            idle_start = max(err_times)
            kind = "error-response"
        if idle_start != float("inf"):
            in_period = [t for t in recvs if t > idle_start + EPS]
            last_act = max(in_period, default=idle_start)
            lo = idle_start + T - EPS
            hi = last_act + T + EPS
            horizon_ok = (trigger is None or trigger > hi + DELTA) and (t_loss is None or t_loss > hi + DELTA)
            if horizon_ok:
                if t_close is None or t_close > hi:
                    bad("idle-not-closed", f"conn {info.index}: idle since {idle_start:.6f} ({kind}), last bytes at "
                        f"{last_act:.6f}, keep_alive_timeout {T}: server close seen at {t_close} (latest admissible "
                        f"{hi:.6f})", idle_kind=kind, **key)
                elif kind != "error-response" and t_close < lo and not _busy_at(busy, t_close):
                    bad("idle-closed-early", f"conn {info.index}: idle since {idle_start:.6f} ({kind}) closed at "
                        f"{t_close:.6f}, earlier than keep_alive_timeout {T}", idle_kind=kind, **key)
            elif trigger is not None and trigger <= hi + DELTA and (t_loss is None or t_loss > trigger + DELTA):
                # shutdown began while the connection was idle: closed at once
                if not _busy_at(busy, trigger) and trigger > idle_start + EPS:
                    if t_close is None or t_close > trigger + DELTA:
                        bad("idle-not-closed-on-shutdown", f"conn {info.index}: idle at the shutdown trigger "
                            f"({trigger:.6f}) but closed at {t_close}", **key)
                elif _busy_at(busy, trigger) and idle_start > trigger + EPS and kind == "response" \
                        and (t_loss is None or t_loss > idle_start + DELTA):
                    # shutdown began while a request was in progress: once that request is done the
                    # connection has nothing in progress and shutdown has begun - closed at once
                    if t_close is None or t_close > idle_start + DELTA:
                        bad("idle-not-closed-on-shutdown", f"conn {info.index}: shutdown began at {trigger:.6f} "
                            f"during a request; the connection became idle at {idle_start:.6f} but was closed "
                            f"at {t_close}", became_idle_after_trigger=True, **key)
        # ---- rule D: released promptly after peer loss or the server's own close
        t_dead = None
        for t in (t_loss, t_close):
            if t is not None:
                t_dead = t if t_dead is None else min(t_dead, t)
        if t_dead is not None and handler is not None:
            app_ends = [i.end_time if i.end_time is not None else float("inf")
                        for i in host.instances if i.tag in info.tags]
            t_apps = max([t_dead] + app_ends)
            deadline = t_apps + DELTA
            parked = info.proto == "h1" and _parked(host, info, t_dead)
            why = "peer-loss" if (t_loss is not None and t_dead == t_loss) else "server-close"
            if handler[1] is None or handler[1] > deadline:
                if not err_times and handler[1] is not None:
                    linger = handler[1] - t_apps
                    cut_by_shutdown = trigger is not None and abs(handler[1] - trigger) < DELTA and linger < T
                    if abs(linger - T) < 2e-3 or cut_by_shutdown:
                        key = dict(key, cause="idle-rearmed-after-eof")
                bad("handler-not-released", f"conn {info.index}: {why} at {t_dead:.6f}, applications done at "
                    f"{t_apps:.6f}, but the handler ended at {handler[1]} (> {deadline:.6f})",
                    why=why, **key)
            elif t_close is None or t_close > deadline:
                bad("socket-not-released", f"conn {info.index}: {why} at {t_dead:.6f}, applications done at "
                    f"{t_apps:.6f}, but the socket closed at {t_close}", why=why, **key)
    # ---- nothing outlives its connection at the end of the run
    if world.result == "returned":
        for info in conns:
            conn = info.script.conn
            if conn is None or conn.accepted_at is None:
                continue
            if conn.server.fd in world.open_fds:
                bad("fd-leak", f"conn {info.index}: socket still open after worker_serve returned", proto=info.proto)
    elif world.result in ("deadline", "quiescent"):
        out.notes.append(f"worker_serve ended with {world.result}")


def _sibling_get(sc: Script, sess: Any) -> None:
    """HTTP/2 carrier: an ordinary request next to the WebSocket stream; when it completes the connection has a
    stream that finished and one (the WebSocket) that has not - it is not idle."""
    if sess.carrier != "h2" or sc.ended:
        return
    peer = sess.peer
    sid = peer.new_stream()
    sess.sibling = sid
    sc.conn.client.send(peer.headers(sid, [(b":method", b"GET"), (b":scheme", b"http"), (b":authority", b"example.test"),
                                           (b":path", b"/sib"), (b"x-tag", b"wssib")], end_stream=True))


def _sibling_done(sess: Any) -> bool:
    sid = getattr(sess, "sibling", None)
    return sess.carrier != "h2" or (sid is not None and sess.peer.stream_done(sid))


def _check_ws(world: World, host: AppHost, ws: Dict[str, Any], T: float, out: Outcome) -> None:
    def bad(rule: str, msg: str, **key: Any) -> None:
        out.violations.append(Violation(rule, msg, dict(key, worker=world.worker, proto="ws-" + ws["carrier"])))

    script: Script = ws["script"]
    sess = ws["sess"]
    conn = script.conn
    if conn is None or conn.accepted_at is None or sess.ws is None:
        return
    marks = script.marks
    trigger = world.trigger_at
    t_open = marks.get("open", (0, None))[1]
    t_after = marks.get("after-pause", (0, None))[1]
    t_closing = marks.get("closing", (0, None))[1]
    closed = conn.client.server_closed_at
    if t_open is None:
        return
    horizon = t_after if t_after is not None else t_open + ws["pause"]
    if trigger is None or trigger > horizon + DELTA:
        # nothing but silence happened between the first echo and the second message
        if closed is not None and closed < horizon + EPS and (t_closing is None or closed < t_closing):
            bad("ws-closed-while-open", f"the server closed an open WebSocket at {closed:.6f} after "
                f"{closed - t_open:.3f}s of silence (keep_alive_timeout {T}, silence planned {ws['pause']})")
        elif t_after is not None and "echoed" not in marks and (trigger is None or trigger > t_after + 2.0 + DELTA) \
                and len(sess.ws.messages) < 2:
            bad("ws-closed-while-open", f"a message sent after {ws['pause']}s of silence on an open WebSocket was "
                f"never answered (server closed at {closed})")
    # released once the WebSocket is over
    h = world.handlers.get(conn.id)
    if t_closing is not None and (trigger is None or trigger > t_closing + 1.0):
        limit = t_closing + 0.05 + DELTA + 2 * conn.c2s_latency
        if h is None or h[1] is None or h[1] > limit:
            bad("handler-not-released", f"WebSocket ended ({ws['ending']}) at {t_closing:.6f} but the connection "
                f"handler ended at {h[1] if h else None}", why="ws-end", cause="other")


def _busy_at(busy: List[Tuple[float, float]], t: Optional[float]) -> bool:
    return t is not None and any(s - EPS <= t < e - EPS for s, e in busy)


def _parked(host: AppHost, info: ConnInfo, t: float) -> bool:
    """A pipelined request was waiting behind an unfinished one at time t."""
    if not info.pipelined_pair:
        return False
    started = {i.tag for i in host.instances}
    return any(tag not in started for tag in info.tags)


def _error_response_times(info: ConnInfo, conn: Any) -> List[float]:
    times = []
    if info.proto == "h1":
        parser = info.script.parser
        for r in parser.responses:
            if r.status == 404 and r.header(b"x-echo") is None:
                for _, t, cum in conn.server.send_marks:
                    if cum >= r.end:
                        times.append(t)
                        break
    else:
        peer = info.peer
        for sid, st in peer.streams.items():
            if st.status in (404, 400) and st.end_wire is not None:
                for _, t, cum in conn.server.send_marks:
                    if cum >= st.end_wire:
                        times.append(t)
                        break
    return times
