"""C14 - lifespan protocol ordering, failure handling and state isolation."""
from __future__ import annotations

from typing import Any, Dict, List, Optional

from ..apps import AppHost, AppRaise
from ..core import Tape
from ..peers import h1 as h1peer
from ..peers.h2 import H2Peer
from ..runner import Outcome, Violation, finish_outcome
from ..scen import Script, responses_at_least
from ..world import World

ID = "C14"
DELTA = 0.1
EPS = 1e-6
STARTUPS = ["complete", "complete-slow", "complete-late", "failed", "failed-cleanup", "failed-swallow", "failed-other-error",
            "failed-in-group", "raise-first", "raise-after-recv", "hang", "return-early", "unknown-message"]
SHUTDOWNS = ["complete", "complete-slow", "failed", "raise", "hang", "returned-before", "unknown-message",
             "crash-while-serving"]
# what the property says must follow each startup script
EXPECT = {"complete": "serve", "complete-slow": "serve", "complete-late": "abort-timeout", "failed": "abort-failed",
          "failed-cleanup": "abort-failed", "failed-swallow": "abort-failed", "failed-other-error": "abort-failed", "failed-in-group": "abort-failed", "raise-first": "serve",
          "raise-after-recv": "serve", "hang": "abort-timeout", "return-early": "unjudged", "unknown-message": "serve"}


def _cases() -> List[dict]:
    cases = []
    for worker in ("asyncio", "trio"):
        for st in STARTUPS:
            if EXPECT[st] == "serve" and st.startswith("complete"):
                for sh in SHUTDOWNS:
                    cases.append({"worker": worker, "case": {"startup": st, "shutdown": sh}})
            else:
                cases.append({"worker": worker, "case": {"startup": st, "shutdown": "complete"}})
    return cases


def plan(tier: str) -> dict:
    return {
        "runs": 30000 if tier == "quick" else 1000000,
        "budget": 150 if tier == "quick" else 900,
        "cases": _cases(),
        "chunk": 30,
        "rule": "Lifespan application scripts at startup {complete fast/slow/later than startup_timeout, failed (plain, with "
        "an awaiting cleanup, swallowed), raise before/after receiving, hang, return early, unknown message} x at shutdown "
        "{complete fast/slow, failed, raise, hang, already returned, unknown message, crash while serving} x 1..5 clients "
        "(HTTP/1.1 and HTTP/2) whose connection attempts are placed before, during and after startup, around the trigger, "
        "inside the grace period and after it, with fast / slow / stuck requests that write a per-connection key into "
        "scope['state'] and report the keys they see. Ordering is judged on global event sequence numbers, timeouts on "
        "exact virtual instants.",
        "enumerated": ["startup script x shutdown script x worker with a fixed client set"],
        "assumptions": ["the listening socket exists before worker_serve starts (as with hypercorn's own multi-worker run); "
                        "'accepts a connection' is the server's accept() call on it",
                        "an application that returns from the lifespan scope without answering is not judged for "
                        "whether serving starts"],
    }


def random_params(i: int, tier: str) -> dict:
    cases = _cases()
    c = cases[(i * 37) % len(cases)]
    return {"worker": c["worker"], "case": c["case"], "vary": True}


def _lifespan_program(startup: str, shutdown: str, d_start: float, d_shut: float, crash_at: float) -> Any:
    async def prog(host: AppHost, inst: Any, receive: Any, send: Any) -> None:
        inst.scope["state"]["boot"] = "early"
        if startup == "raise-first":
            raise AppRaise("lifespan unsupported")
        if startup == "return-early":
            return
        m = await host._recv(inst, receive)
        assert m["type"] == "lifespan.startup", m
        inst.scope["state"]["ls"] = "from-lifespan"
        if startup == "raise-after-recv":
            await host._sleep(d_start)
            raise AppRaise("lifespan unsupported")
        if startup == "hang":
            await host._hang()
        if startup == "unknown-message":
            error = await host._send(inst, send, {"type": "lifespan.startup.bogus"})
            if error is not None:
                raise error
            return
        if startup.startswith("failed"):
            await host._sleep(d_start)
            error = await host._send(inst, send, {"type": "lifespan.startup.failed", "message": "no database"})
            if startup == "failed-cleanup":
                await host._sleep(0.2)  # e.g. closing what was opened so far, then re-raising
            if startup == "failed-swallow":
                return
            if startup == "failed-other-error":
                raise ValueError("cleanup after the failed startup went wrong too")
            if error is not None and startup == "failed-in-group":
                # anyio / asyncio.TaskGroup style applications: the error raised by send() leaves the
                # application wrapped in an exception group
                raise BaseExceptionGroup("unhandled errors in a TaskGroup", [error])
            if error is not None:
                raise error
            return
        await host._sleep(d_start)
        error = await host._send(inst, send, {"type": "lifespan.startup.complete"})
        if error is not None:
            raise error
        if shutdown == "returned-before":
            return
        if shutdown == "crash-while-serving":
            await host._sleep(crash_at)
            raise AppRaise("lifespan task crashed")
        m = await host._recv(inst, receive)
        assert m["type"] == "lifespan.shutdown", m
        if shutdown == "raise":
            raise AppRaise("shutdown crashed")
        if shutdown == "hang":
            await host._hang()
        await host._sleep(d_shut)
        kind = {"failed": "lifespan.shutdown.failed", "unknown-message": "lifespan.shutdown.bogus"}.get(
            shutdown, "lifespan.shutdown.complete")
        error = await host._send(inst, send, {"type": kind})
        if error is not None:
            raise error
        # a well-behaved application keeps listening: a second lifespan.shutdown would be seen here
        if shutdown in ("complete", "complete-slow"):
            try:
                await host._recv(inst, receive)
            except BaseException:
                raise

    return [("call", prog)]


def _request_program(key: bytes, dur: Optional[float]) -> list:
    async def prog(host: AppHost, inst: Any, receive: Any, send: Any) -> None:
        state = inst.scope.get("state")
        seen = sorted(state.keys()) if isinstance(state, dict) else ["<no-state>"]
        inst.notes.append(("state-seen", seen))
        if isinstance(state, dict):
            state["conn-" + key.decode()] = "mine"
        if dur is None:
            await host._hang()
        elif dur > 0:
            await host._sleep(dur)
        body = ",".join(seen).encode()
        for msg in ({"type": "http.response.start", "status": 200, "headers": [(b"x-key", key)]},
                    {"type": "http.response.body", "body": body, "more_body": False}):
            error = await host._send(inst, send, msg)
            if error is not None:
                raise error

    return [("recv_all",), ("call", prog)]


def run(tape: Tape, params: dict) -> Outcome:
    case = params["case"]
    vary = params.get("vary", False)
    if not vary:
        tape = Tape(values=[])
    world = World(tape, params["worker"])
    sim = world.sim
    host = AppHost(sim, world.worker)
    world.app = host
    world.pre_listen = True
    out = Outcome()
    ST = tape.choice([1.0, 0.3, 3.0], "cfg.startup_timeout")
    S = tape.choice([0.5, 0.2, 2.0], "cfg.shutdown_timeout")
    G = tape.choice([1.0, 0.3, 2.5], "cfg.graceful")
    T = tape.choice([5.0, 0.5], "cfg.keepalive")
    world.config.startup_timeout = ST
    world.config.shutdown_timeout = S
    world.config.graceful_timeout = G
    world.config.keep_alive_timeout = T
    startup, shutdown = case["startup"], case["shutdown"]
    d_start = {"complete": 0.0, "complete-slow": ST * tape.choice([0.5, 0.9], "ls.dstart"),
               "complete-late": ST + tape.choice([0.5, 0.01], "ls.dlate")}.get(
        startup, tape.choice([0.2, 0.0, ST / 2], "ls.dstart2"))
    d_shut = {"complete-slow": S * tape.choice([0.5, 0.9], "ls.dshut")}.get(shutdown, 0.0)
    t_ready = d_start + (0.2 if startup == "failed-cleanup" else 0.0)
    t_trigger = t_ready + tape.choice([1.0, 0.3, 2.0], "trigger.after")
    crash_at = tape.choice([0.2, 0.6], "ls.crash_at")
    host.lifespan_program = _lifespan_program(startup, shutdown, d_start, d_shut, crash_at)
    # ---- clients
    grid = [0.01, max(0.02, d_start / 2), d_start + 0.01, d_start + 0.15, t_trigger - 0.2, t_trigger - 0.01,
            t_trigger + 0.01, t_trigger + G / 2, t_trigger + G + 0.05]
    nconn0, cpos = tape.draw_count(4, "nconn")
    conns: List[Dict[str, Any]] = []
    fixed = [(0, "fast", "h1"), (4, "slow", "h2"), (2, "fast", "h1")]
    for ci in range(1 + nconn0 if vary else len(fixed)):
        tape.span_begin(cpos)
        if vary:
            when = grid[tape.draw(len(grid), "conn.when")]
            speed = ["fast", "slow", "stuck"][tape.weighted([4, 3, 1], "conn.speed")]
            proto = "h1" if tape.chance(2, 3, "conn.h1") else "h2"
        else:
            when, speed, proto = grid[fixed[ci][0]], fixed[ci][1], fixed[ci][2]
        key = b"k%d" % ci
        dur = {"fast": 0.0, "slow": tape.choice([0.5, G / 2, G + 1.0], "conn.dur"), "stuck": None}[speed]
        host.programs[key] = _request_program(key, dur)
        entry: Dict[str, Any] = {"index": ci, "when": when, "speed": speed, "proto": proto, "key": key, "dur": dur}
        if proto == "h1":
            parser = h1peer.ResponseParser()
            parser.expect(b"GET")
            steps = [("send", b"GET /%s HTTP/1.1\r\nHost: example.test\r\nx-tag: %s\r\n\r\n" % (key, key)),
                     ("wait", responses_at_least(1), 30.0), ("wait", lambda sc: False, 30.0)]
            script = Script(world, steps, parser)
        else:
            peer = H2Peer()
            peer.clock = lambda: sim.now
            sid = peer.new_stream()
            hdrs = [(b":method", b"GET"), (b":scheme", b"http"), (b":authority", b"example.test"),
                    (b":path", b"/" + key), (b"x-tag", key)]
            steps = [("send", peer.preface() + peer.headers(sid, hdrs, end_stream=True)),
                     ("wait", lambda sc, peer=peer, sid=sid: peer.stream_done(sid), 30.0),
                     ("wait", lambda sc: False, 30.0)]
            script = Script(world, steps, peer)
            entry["peer"], entry["sid"] = peer, sid
        entry["script"] = script
        script.start_at(when)
        conns.append(entry)
        tape.span_end()
    if EXPECT[startup] in ("serve", "unjudged"):
        sim.at(t_trigger, world.trigger_shutdown)
    world.run(end_at=t_trigger + G + S + ST + 40.0)
    host.drain_leftovers()
    out.sample = {"worker": world.worker, "case": case, "ST": ST, "S": S, "G": G, "d_start": d_start, "d_shut": d_shut,
                  "t_trigger": t_trigger, "conns": [{k: c[k] for k in ("when", "speed", "proto")} for c in conns]}
    _check(world, host, case, conns, ST, S, G, d_start, t_trigger, out)
    return finish_outcome(world, out)


def _flatten(exc: Optional[BaseException]) -> List[BaseException]:
    if exc is None:
        return []
    if isinstance(exc, BaseExceptionGroup):
        res: List[BaseException] = []
        for e in exc.exceptions:
            res.extend(_flatten(e))
        return res
    return [exc]


def _check(world: World, host: AppHost, case: dict, conns: List[Dict[str, Any]], ST: float, S: float, G: float,
           d_start: float, t_trigger: float, out: Outcome) -> None:
    startup, shutdown = case["startup"], case["shutdown"]

    def bad(rule: str, msg: str, **key: Any) -> None:
        out.violations.append(Violation(rule, msg, dict(key, worker=world.worker, startup=startup, shutdown=shutdown)))

    sim = world.sim
    expect = EXPECT[startup]
    ls = host.lifespan
    if ls is None:
        bad("lifespan-started", "the application was never called with a lifespan scope")
        return
    accepts = [(e[0], e[1]) for e in sim.log if e[2] == "l.accept"]
    first_accept = accepts[0] if accepts else None
    first_request = min([(i.start_seq, i.start_time) for i in host.instances], default=None)
    startup_msgs = [e for e in ls.received if e[2].get("type") == "lifespan.startup"]
    shutdown_msgs = [e for e in ls.received if e[2].get("type") == "lifespan.shutdown"]
    if len(startup_msgs) > 1:
        bad("startup-once", f"{len(startup_msgs)} lifespan.startup messages delivered")
    if len(shutdown_msgs) > 1:
        bad("shutdown-once", f"{len(shutdown_msgs)} lifespan.shutdown messages delivered")
    # ---- 1. the lifespan scope (and its startup message) come before any accept / request scope
    if first_accept is not None and first_accept[0] < ls.start_seq:
        bad("startup-first", f"a connection was accepted (seq {first_accept[0]}) before the lifespan scope was created")
    # the point from which serving may start: complete sent, or the application raised
    complete = next((e for e in ls.sends if e[2]["type"] == "lifespan.startup.complete"), None)
    if complete is not None:
        ready_seq, ready_t = complete[0], complete[1]
    elif ls.end is not None and ls.end.startswith("raised") and not startup.startswith("failed"):
        ready_seq, ready_t = ls.end_seq, ls.end_time
    elif startup == "return-early" and ls.end == "returned":
        ready_seq, ready_t = ls.end_seq, ls.end_time
    else:
        ready_seq = ready_t = None
    for what, first in (("accepted a connection", first_accept), ("created a request scope", first_request)):
        if first is None:
            continue
        if ready_seq is None:
            bad("served-without-startup", f"the server {what} at t={first[1]:.3f} although startup never completed "
                f"(lifespan application: {ls.end})", what=what.split()[0])
        elif first[0] < ready_seq:
            bad("served-before-startup", f"the server {what} at t={first[1]:.3f} (seq {first[0]}) before "
                f"lifespan.startup.complete / the application's refusal at t={ready_t:.3f} (seq {ready_seq})")
    # ---- 2. failed / timed-out startup aborts the server with an error
    if expect.startswith("abort"):
        errs = _flatten(world.exception)
        names = [type(e).__name__ for e in errs]
        # a failure whose unwinding outlasts startup_timeout may be reported as the timeout
        want = ["LifespanTimeoutError"] if expect == "abort-timeout" else ["LifespanFailureError", "LifespanTimeoutError"]
        if world.result != "raised":
            bad("startup-abort", f"startup {startup}: worker_serve ended with '{world.result}' instead of raising "
                f"{want[0]}; {len(host.instances)} requests reached the application, {len(accepts)} connections "
                f"accepted", served=bool(accepts))
        elif not any(w in names for w in want):
            bad("startup-abort", f"startup {startup}: worker_serve raised {names} instead of {want[0]}")
        if world.result == "raised" and world.returned_at is not None:
            t_exp = ST if expect == "abort-timeout" else min(ST, d_start + (0.2 if startup == "failed-cleanup" else 0.0))
            if world.returned_at > t_exp + DELTA or (expect == "abort-timeout" and world.returned_at < ST - EPS):
                bad("startup-abort-time", f"startup {startup}: server aborted at {world.returned_at:.3f}, expected "
                    f"{t_exp:.3f} (startup_timeout {ST})")
        for c in conns:
            p = c["script"].parser
            got = p.responses if c["proto"] == "h1" else [s for s in p.streams.values() if s.status is not None]
            if got:
                bad("served-without-startup", f"connection {c['index']} received a response although startup {startup}")
        return
    # ---- 3. serving starts (liveness) once startup is over; only a failed or overdue startup aborts
    if world.result == "raised" and world.trigger_at is None:
        bad("startup-serve", f"startup {startup}: worker_serve raised {world.exception!r} although startup neither "
            f"failed nor timed out")
        return
    if expect == "serve":
        for c in conns:
            conn = c["script"].conn
            if c["when"] < t_trigger - 0.05 and c["speed"] == "fast" and ready_t is not None:
                p = c["script"].parser
                if c["proto"] == "h1":
                    ok = bool(p.responses) and p.responses[0].status == 200
                else:
                    st = p.streams.get(c["sid"])
                    ok = st is not None and st.complete and st.status == 200
                if not ok:
                    bad("startup-serve", f"connection {c['index']} made at {c['when']:.3f} (startup over at "
                        f"{ready_t:.3f}, trigger at {t_trigger:.3f}) was not answered")
    # ---- 4. state isolation
    base = set(ls.scope.get("state", {}).keys()) if isinstance(ls.scope.get("state"), dict) else set()
    leaked = sorted(k for k in base if k.startswith("conn-"))
    if leaked:
        bad("state-isolation", f"keys written by request handlers appeared in the lifespan state: {leaked}")
    by_conn: Dict[bytes, List[Any]] = {}
    for inst in host.instances:
        for note in inst.notes:
            if isinstance(note, tuple) and note[0] == "state-seen":
                seen = note[1]
                foreign = [k for k in seen if k.startswith("conn-") and k != "conn-" + (inst.tag or b"").decode()]
                if foreign:
                    bad("state-isolation", f"request {inst.tag!r} saw keys written on other connections: {foreign}")
                if seen == ["<no-state>"]:
                    bad("state-present", f"request {inst.tag!r}: scope has no state dict")
                elif complete is not None and "ls" not in seen:
                    bad("state-present", f"request {inst.tag!r}: the key set by the lifespan application during startup "
                        f"is missing from the connection's state copy (saw {seen})")
    # ---- 5. shutdown: exactly once, after the drain or the grace period, bounded
    t0 = world.trigger_at
    if t0 is None:
        return
    listening = (complete is not None and shutdown not in ("returned-before", "crash-while-serving"))
    handler_ends = [h[1] for h in world.handlers.values()]
    if shutdown_msgs:
        t_ls = shutdown_msgs[0][1]
        if t_ls < t0 - EPS:
            bad("shutdown-order", f"lifespan.shutdown delivered at {t_ls:.3f} before shutdown began ({t0:.3f})")
        drained = all(e is not None and e <= t_ls + EPS for e in handler_ends)
        if not drained and t_ls < t0 + G - EPS:
            bad("shutdown-order", f"lifespan.shutdown delivered at {t_ls:.3f} before the connections drained and "
                f"before trigger + graceful_timeout ({t0 + G:.3f})")
        t_drain = max([t0] + [e for e in handler_ends if e is not None]) if all(
            e is not None for e in handler_ends) else t0 + G
        if t_ls > min(t_drain, t0 + G) + DELTA:
            bad("shutdown-late", f"lifespan.shutdown delivered at {t_ls:.3f}; connections drained at {t_drain:.3f}, "
                f"grace period ended at {t0 + G:.3f}")
    elif listening:
        bad("shutdown-once", "lifespan.shutdown was never delivered to an application waiting for it")
    bound = t0 + G + S + 0.5
    if world.result not in ("returned", "raised"):
        bad("bounded-return", f"worker_serve did not end (ended by {world.result}); bound {bound:.3f}")
    elif world.returned_at is not None and world.returned_at > bound:
        bad("bounded-return", f"worker_serve ended at {world.returned_at:.3f}, later than trigger + graceful + "
            f"shutdown_timeout ({bound:.3f})")
    if shutdown == "hang" and complete is not None:
        names = [type(e).__name__ for e in _flatten(world.exception)]
        if world.result != "raised" or "LifespanTimeoutError" not in names:
            bad("shutdown-timeout", f"lifespan shutdown hung but worker_serve ended with {world.result} {names}")
