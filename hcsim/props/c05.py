"""C05 - application failures are contained and never yield a falsely complete response."""
from __future__ import annotations

from typing import Any, Callable, Dict, List, Optional, Tuple

from ..apps import AppHost, Instance
from ..core import Tape
from ..peers import h1 as h1peer
from ..peers import ws as wsp
from ..peers.h2 import H2Peer
from ..runner import Outcome, Violation, finish_outcome
from ..scen import Script, responses_at_least
from ..wsgen import WSSession, build_ws_script
from ..world import World

ID = "C05"
DELTA = 1.0
FAILS = ["raise", "raise_group", "return", "cancel"]


def _start(headers: List[tuple]) -> tuple:
    return ("send", {"type": "http.response.start", "status": 200, "headers": headers})


def _body(data: bytes, more: bool) -> tuple:
    return ("send", {"type": "http.response.body", "body": data, "more_body": more})


def base_programs(declared: bool) -> Dict[str, list]:
    """Base programs as lists of atomic steps (every step is one await point)."""
    total = b"aaaa" + b"bbbb" + b"cc"
    hdr = [(b"content-length", str(len(total)).encode())] if declared else []
    return {
        "read-then-respond": [("recv_all",), _start(hdr), _body(b"aaaa", True), _body(b"bbbb", True), _body(b"cc", False)],
        "respond-then-read": [_start(hdr), _body(b"aaaa", True), _body(b"bbbbcc", False), ("recv_all",)],
        "streaming": [("recv",), _start(hdr), _body(b"aaaa", True), ("pause", ("sleep", 0.01)), _body(b"bbbb", True),
                      ("pause", ("yield", 1)), _body(b"cc", False)],
    }


WS_BASES = {
    "ws-accept-echo-close": ["connect", "accept", "recv", "send", "close"],
    "ws-denial": ["connect", "http-start", "http-body1", "http-body2"],
}


def _cases() -> List[dict]:
    cases = []
    for worker in ("asyncio", "trio"):
        for declared in (True, False):
            for name, prog in base_programs(declared).items():
                for point in range(len(prog) + 1):
                    for fail in FAILS:
                        if fail == "cancel" and worker == "trio":
                            continue
                        for ctx in ("h1-keepalive", "h1-pipelined", "h2-siblings"):
                            cases.append({"worker": worker, "case": {"base": name, "declared": declared, "point": point,
                                                                      "fail": fail, "ctx": ctx}})
        for name, steps in WS_BASES.items():
            for point in range(len(steps) + 1):
                for fail in ("raise", "return"):
                    for carrier in ("h1", "h2"):
                        cases.append({"worker": worker, "case": {"base": name, "point": point, "fail": fail,
                                                                  "ctx": "ws-" + carrier}})
    return cases


def plan(tier: str) -> dict:
    cases = _cases()
    return {
        "runs": 12000 if tier == "quick" else 600000,
        "budget": 150 if tier == "quick" else 900,
        "cases": cases,
        "chunk": 40,
        "rule": "Every await point of the base programs (read-then-respond, respond-then-read, streaming with and "
        "without declared length, WebSocket accept/echo/close, WebSocket denial response) x {raise, raise an "
        "ExceptionGroup, return, self-cancel} x {HTTP/1.1 keep-alive with a later request, HTTP/1.1 pipelined, "
        "HTTP/2 with healthy sibling streams, WebSocket over both carriers} is enumerated; the random runs vary "
        "segmentation, latency, body sizes and sibling timing around the same product.",
        "enumerated": [f"{len(cases)} crash-point cases: base program x await point x failure kind x context x worker"],
        "assumptions": ["HTTP/1.0 / close-delimited responses cannot signal truncation and are not generated here"],
    }


def random_params(i: int, tier: str) -> dict:
    cases = _cases()
    return {"worker": cases[i % len(cases)]["worker"], "case": cases[(i * 7919) % len(cases)]["case"], "vary": True}


def _failing_program(prog: list, point: int, fail: str) -> list:
    head = list(prog[:point])
    if fail == "raise":
        return head + [("raise", "boom")]
    if fail == "raise_group":
        return head + [("raise_group",)]
    if fail == "return":
        return head + [("return",)]
    return head + [("cancel",)]


def _ws_program(steps: List[str], point: int, fail: str) -> Callable:
    async def prog(host: Any, inst: Any, receive: Callable, send: Callable) -> None:
        for i, step in enumerate(steps + ["end"]):
            if i == point:
                if fail == "raise":
                    raise RuntimeError("ws boom")
                return
            if step == "connect":
                await host._recv(inst, receive)
            elif step == "accept":
                await host._send(inst, send, {"type": "websocket.accept"})
            elif step == "recv":
                await host._recv(inst, receive)
            elif step == "send":
                await host._send(inst, send, {"type": "websocket.send", "text": "echo"})
            elif step == "close":
                await host._send(inst, send, {"type": "websocket.close", "code": 1000})
            elif step == "http-start":
                await host._send(inst, send, {"type": "websocket.http.response.start", "status": 401, "headers": []})
            elif step == "http-body1":
                await host._send(inst, send, {"type": "websocket.http.response.body", "body": b"den", "more_body": True})
            elif step == "http-body2":
                await host._send(inst, send, {"type": "websocket.http.response.body", "body": b"ied", "more_body": False})
        while True:
            m = await host._recv(inst, receive)
            if m["type"] == "websocket.disconnect":
                return

    return prog


def _get(tag: bytes, body: bytes = b"") -> bytes:
    if body:
        return (b"POST /" + tag + b" HTTP/1.1\r\nHost: example.test\r\nx-tag: " + tag +
                b"\r\nContent-Length: " + str(len(body)).encode() + b"\r\n\r\n" + body)
    return b"GET /" + tag + b" HTTP/1.1\r\nHost: example.test\r\nx-tag: " + tag + b"\r\n\r\n"


def run(tape: Tape, params: dict) -> Outcome:
    case = params["case"]
    vary = params.get("vary", False)
    if not vary:
        tape = Tape(values=[])
    world = World(tape, params["worker"])
    sim = world.sim
    host = AppHost(sim, world.worker)
    world.app = host
    world.config.keep_alive_timeout = 10.0
    out = Outcome()
    ctx = case["ctx"]
    seg = [0, 1, 2][tape.weighted([3, 3, 1], "conn.seg")]
    lat = tape.choice([0.001, 0.0001, 0.01], "conn.lat")
    body = b"" if tape.chance(1, 2, "req.body") else b"x" * (1 + tape.draw(3000, "req.bodylen"))

    def setup(conn: Any) -> None:
        conn.seg_mode = seg
        conn.c2s_latency = conn.s2c_latency = lat

    info: Dict[str, Any] = {"case": case, "worker": world.worker, "seg": seg, "lat": lat, "body": len(body)}
    scripts: Dict[str, Any] = {}
    if ctx.startswith("ws-"):
        carrier = ctx[3:]
        sess = WSSession(carrier, b"fail")
        host.programs[b"fail"] = [("call", _ws_program(WS_BASES[case["base"]], case["point"], case["fail"]))]
        ops: List[tuple] = [("frames", wsp.frame(wsp.OP_TEXT, b"hi")),
                            ("wait", lambda sc: sc.ended or (sess.ws is not None and sess.ws.close is not None), 5.0),
                            ("close", 1000, b""), ("sleep", 0.05), ("tcpclose",)]
        script = build_ws_script(world, tape, sess, b"/fail", ops, setup)
        script.start_at(0.1)
        scripts["ws"] = sess
    else:
        prog = base_programs(case["declared"])[case["base"]]
        host.programs[b"fail"] = _failing_program(prog, case["point"], case["fail"])
        if ctx == "h1-keepalive":
            parser = h1peer.ResponseParser()
            parser.expect(b"POST" if body else b"GET")
            parser.expect(b"GET")
            steps = [("send", _get(b"fail", body)), ("wait", responses_at_least(1), 5.0), ("sleep", 0.05),
                     ("send", _get(b"next")), ("wait", responses_at_least(2), 5.0)]
            s = Script(world, steps, parser, setup=setup)
            s.start_at(0.1)
            scripts["h1"] = s
        elif ctx == "h1-pipelined":
            parser = h1peer.ResponseParser()
            parser.expect(b"POST" if body else b"GET")
            parser.expect(b"GET")
            steps = [("send", _get(b"fail", body) + _get(b"next")), ("wait", responses_at_least(2), 5.0)]
            s = Script(world, steps, parser, setup=setup)
            s.start_at(0.1)
            scripts["h1"] = s
        else:
            peer = H2Peer()
            peer.clock = lambda: sim.now
            sids = {"sib1": peer.new_stream(), "fail": peer.new_stream(), "sib2": peer.new_stream()}
            host.programs[b"sib1"] = [("recv_all",), ("pause", ("sleep", 0.02)), ("respond", 200, [], [b"sibling-one"])]
            host.programs[b"sib2"] = [("recv_all",), ("respond", 200, [], [b"s" * 5000, b"two"])]

            def open_all(sc: Script) -> None:
                for name, sid in sids.items():
                    tag = name.encode()
                    hdrs = [(b":method", b"POST" if (name == "fail" and body) else b"GET"), (b":scheme", b"http"),
                            (b":authority", b"example.test"), (b":path", b"/" + tag), (b"x-tag", tag)]
                    has_body = name == "fail" and bool(body)
                    sc.conn.client.send(peer.headers(sid, hdrs, end_stream=not has_body))
                    if has_body:
                        peer.queue_upload(sid, body, True)

            steps = [("send", peer.preface()), ("call", open_all),
                     ("wait", lambda sc: all(peer.stream_done(s) for s in sids.values()), 5.0)]
            s = Script(world, steps, peer, setup=setup)
            s.start_at(0.1)
            scripts["h2"] = (s, peer, sids)
    # a later connection must still be served
    later_parser = h1peer.ResponseParser()
    later_parser.expect(b"GET")
    later = Script(world, [("send", _get(b"later")), ("wait", responses_at_least(1), 5.0)], later_parser)
    later.start_at(8.0)
    world.run(end_at=20.0)
    host.drain_leftovers()
    out.sample = info
    _check(world, host, case, scripts, later_parser, out)
    return finish_outcome(world, out)


def _app_sent(inst: Instance) -> Tuple[bool, bytes, bool, Optional[int]]:
    """(started, body bytes sent ok, completed, declared length)."""
    started = False
    body = b""
    completed = False
    declared = None
    for entry in inst.sends:
        m = entry[2]
        if entry[3] != "ok":
            continue
        if m["type"] == "http.response.start":
            started = True
            for n, v in m.get("headers", []):
                if n.lower() == b"content-length":
                    declared = int(v)
        elif m["type"] == "http.response.body":
            body += bytes(m.get("body", b""))
            if not m.get("more_body", False):
                completed = True
    return started, body, completed, declared


def _check(world: World, host: AppHost, case: dict, scripts: Dict[str, Any], later_parser: Any, out: Outcome) -> None:
    # known finding F06: an instance that stops reading with max_app_queue_size unread messages queued
    # wedges its connection (the server's own put of the disconnect blocks)
    cause = "other"
    if any(len(i.leftover) >= world.config.max_app_queue_size for i in host.instances):
        cause = "recv-queue-full"

    def bad(rule: str, msg: str, **key: Any) -> None:
        out.violations.append(Violation(rule, msg, dict(key, worker=world.worker, ctx=case["ctx"], fail=case["fail"],
                                                        cause=cause)))

    if world.result != "returned":
        bad("server-survives", f"worker_serve ended with {world.result}: {world.exception!r}")
    if world.loop_exceptions:
        bad("server-survives", f"event-loop exception handler called: {world.loop_exceptions[:1]}")
    if not later_parser.responses or later_parser.responses[0].status != 200:
        bad("later-connection", "a connection opened after the failure was not served")
    insts = [i for i in host.instances if i.tag == b"fail"]
    if len(insts) != 1:
        bad("one-instance", f"{len(insts)} instances of the failing request")
        return
    inst = insts[0]
    raising = str(inst.end).startswith("raised")
    exc_logs = [r for r in world.logger.records if r[2] == "exception"]
    if raising and len(exc_logs) != 1:
        bad("logged", f"{len(exc_logs)} exception log records for one raising application")
    if not raising and exc_logs:
        bad("logged", f"{len(exc_logs)} exception log records although the application did not raise "
            f"({[r[3][:80] for r in exc_logs]})")
    t_fail = inst.end_time
    if "ws" in scripts:
        _check_ws(world, case, scripts["ws"], inst, t_fail, bad)
        return
    started, sent_body, completed, declared = _app_sent(inst)
    if "h1" in scripts:
        s: Script = scripts["h1"]
        parser = s.parser
        conn = s.conn
        if parser.error:
            bad("wire-wellformed", f"client parser error: {parser.error}")
            return
        first = parser.responses[0] if parser.responses else None
        if not started:
            if first is None or first.status != 500:
                bad("500-when-nothing-sent", f"application failed before starting a response; client saw "
                    f"{first.status if first else None}")
        elif completed:
            if first is None or bytes(first.body) != sent_body:
                bad("complete-response", "application completed its response before failing but the client did not "
                    "receive it intact")
        else:
            all_declared_sent = declared is not None and len(sent_body) >= declared
            if first is not None and first.complete and not all_declared_sent:
                bad("falsely-complete", f"application failed after {len(sent_body)} body bytes without finishing, yet "
                    f"the client parsed a complete response (framing {first.framing}, {len(first.body)} bytes)",
                    declared=declared is not None)
            closed_at = conn.client.server_closed_at
            if not all_declared_sent and (closed_at is None or closed_at > t_fail + DELTA + conn.s2c_latency):
                bad("prompt-termination", f"application failed at {t_fail:.4f}; connection closed at {closed_at}")
        if case["ctx"] == "h1-keepalive" and (not started and first is not None and first.status == 500 or completed):
            pass
        # the follow-up request (same connection if it survived) - at least nothing hangs
    else:
        s, peer, sids = scripts["h2"]
        if peer.errors or peer.flow_violations:
            bad("wire-wellformed", f"h2 client errors {peer.errors[:1]} {peer.flow_violations[:1]}")
        for name in ("sib1", "sib2"):
            st = peer.streams.get(sids[name])
            if st is None or not st.complete or st.status != 200:
                bad("siblings", f"sibling stream {name} did not complete normally "
                    f"(status {st.status if st else None}, ended {st.ended if st else None}, reset "
                    f"{st.reset if st else None})")
        st = peer.streams.get(sids["fail"])
        if not started:
            if st is None or st.status != 500:
                bad("500-when-nothing-sent", f"application failed before starting a response; client saw "
                    f"{st.status if st else None}")
        elif completed:
            if st is None or not st.complete or bytes(st.data) != sent_body:
                bad("complete-response", "application completed its response before failing but the client did not "
                    "receive it intact")
        else:
            if st is not None and st.ended and st.reset is None:
                bad("falsely-complete", f"application failed after {len(sent_body)} body bytes without finishing, yet "
                    f"stream ended with END_STREAM ({len(st.data)} bytes)", declared=declared is not None)
            t_reset = peer.reset_times.get(sids["fail"])
            if st is None or st.reset is None or st.reset < 0 or t_reset is None or t_reset > t_fail + DELTA:
                bad("prompt-termination", f"application failed at {t_fail:.4f} after starting its response; no "
                    f"RST_STREAM for the stream within {DELTA}s (reset={st.reset if st else None} at {t_reset})")


def _check_ws(world: World, case: dict, sess: WSSession, inst: Instance, t_fail: float, bad: Any) -> None:
    status = sess.handshake_status()
    sent = [e[2]["type"] for e in inst.sends if e[3] == "ok"]
    if "websocket.accept" not in sent and "websocket.http.response.start" not in sent:
        if status != 500:
            bad("500-when-nothing-sent", f"websocket application failed during the handshake; client saw {status}")
        return
    if "websocket.accept" in sent:
        if "websocket.close" in sent:
            return
        ws = sess.ws
        conn = sess.script.conn
        closed_at = conn.client.server_closed_at
        got_close = ws is not None and ws.close is not None
        if not got_close and (closed_at is None or closed_at > t_fail + DELTA):
            bad("prompt-termination", f"websocket application failed at {t_fail:.4f} after accept: no close frame "
                f"and connection closed at {closed_at}")
        if got_close and ws.close[0] == 1000:
            bad("falsely-complete", "websocket application failed after accept but the client saw a normal 1000 close")
    else:
        # denial response in progress
        complete = "websocket.http.response.body" in sent and any(
            e[2]["type"] == "websocket.http.response.body" and not e[2].get("more_body", False) and e[3] == "ok"
            for e in inst.sends)
        body_sent = "websocket.http.response.body" in sent
        if not body_sent:
            # the denial was announced but nothing of it can be on the wire yet: the client must still be
            # answered (500, as when nothing had been started) - never left with an empty reply
            if status is None:
                if sess.carrier == "h1":
                    answered = bool(sess.client.http.responses) or sess.client.http.current is not None
                else:
                    st = sess.peer.streams.get(sess.sid)
                    answered = st is not None and (st.status is not None or st.reset is not None)
                if not answered:
                    bad("500-when-nothing-sent", "websocket application failed between the start and the body of its "
                        "denial response; the client received no answer at all")
            elif status != 500 and status != 401:
                bad("500-when-nothing-sent", f"websocket application failed right after announcing a denial; client "
                    f"saw {status}")
        if not complete and sess.carrier == "h1":
            r = sess.client.http.responses[0] if sess.client.http.responses else None
            if r is not None and r.complete and r.status == 401 and bytes(r.body) != b"denied":
                bad("falsely-complete", "denial response cut short by an application failure parsed as complete")
