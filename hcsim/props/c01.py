"""C01 - HTTP request delivery fidelity (scope and body reach the app exactly)."""
from __future__ import annotations

from typing import Any, Dict, List, Optional

from ..apps import AppHost, Instance
from ..core import Tape
from ..gen import (BODY_METHODS, METHODS, cut, gen_body, gen_chunk_sizes, gen_headers, gen_target,
                   ows_variant, own_unquote, split_points)
from ..peers import h1 as h1peer
from ..peers.h2 import H2cUpgradeParser, H2Peer
from ..runner import Outcome, Violation, finish_outcome
from ..scen import Script, responses_at_least
from ..world import World

ID = "C01"

SHORT_H1 = [
    dict(method=b"GET", target=b"/a%41?x=1", headers=[(b"Host", b"h"), (b"X-A", b"1")], body=b"", framing="none"),
    dict(method=b"POST", target=b"/p", headers=[(b"Host", b"h")], body=b"hello", framing="length"),
    dict(method=b"PUT", target=b"/c/%c3%a9", headers=[(b"Host", b"h")], body=b"abcdefg", framing="chunked",
         chunks=[3, 4]),
]
SHORT_H2 = [
    dict(method=b"GET", target=b"/a%41?x=1", headers=[(b"x-a", b"1")], body=b""),
    dict(method=b"POST", target=b"/p", headers=[(b"x-b", b"")], body=b"hello-h2"),
]


def plan(tier: str) -> dict:
    cases: List[dict] = []
    for worker in ("asyncio", "trio"):
        for k, req in enumerate(SHORT_H1):
            n = len(_h1_bytes(req, b"e%d" % k))
            for off in range(1, n):
                cases.append({"worker": worker, "case": {"proto": "h1", "req": k, "split": off}})
        for k, req in enumerate(SHORT_H2):
            n = _h2_case_len(req, b"f%d" % k)
            for off in range(1, n):
                cases.append({"worker": worker, "case": {"proto": "h2", "req": k, "split": off}})
    return {
        "runs": 20000 if tier == "quick" else 800000,
        "budget": 150 if tier == "quick" else 900,
        "cases": cases,
        "chunk": 40,
        "rule": "Random HTTP/1.0/1.1/2/h2c request sessions from a conservative well-formed grammar "
        "(methods, targets with escapes and queries, header lists with repeats/mixed case/empty "
        "values/OWS/obs-text, bodies up to >128 KiB, content-length/chunked/DATA framing) with "
        "tape-chosen recv segmentation, latencies, client pacing, application read pace, client FIN "
        "mid-body; plus every two-way split of five short requests on both workers.",
        "enumerated": ["every 2-way recv split of %d short HTTP/1 and %d short HTTP/2 requests x 2 workers"
                       % (len(SHORT_H1), len(SHORT_H2))],
        "assumptions": ["requests outside the conservative grammar are C04's business"],
    }


def random_params(i: int, tier: str) -> dict:
    return {"worker": "asyncio" if i % 2 == 0 else "trio"}


# ---------------------------------------------------------------------------------------------
def _h1_bytes(req: dict, tag: bytes) -> bytes:
    headers = list(req["headers"]) + [(b"x-tag", tag)]
    if req["framing"] == "length":
        headers.append((b"Content-Length", str(len(req["body"])).encode()))
        return h1peer.build_request(req["method"], req["target"], headers, req["body"])
    if req["framing"] == "chunked":
        headers.append((b"Transfer-Encoding", b"chunked"))
        return h1peer.build_request(req["method"], req["target"], headers, req["body"], chunks=req["chunks"])
    return h1peer.build_request(req["method"], req["target"], headers)


def _h2_case_bytes(req: dict, tag: bytes) -> bytes:
    peer = H2Peer()
    out = peer.preface()
    headers = [(b":method", req["method"]), (b":scheme", b"http"), (b":authority", b"h2host"),
               (b":path", req["target"])] + list(req["headers"]) + [(b"x-tag", tag)]
    out += peer.headers(1, headers, end_stream=not req["body"])
    if req["body"]:
        out += peer.data_frame(1, req["body"], end_stream=True)
    return out


def _h2_case_len(req: dict, tag: bytes) -> int:
    return len(_h2_case_bytes(req, tag))


def decode_chunked_prefix(data: bytes) -> bytes:
    """Body bytes contained in a (possibly truncated) chunked encoding."""
    out = bytearray()
    pos = 0
    while True:
        i = data.find(b"\r\n", pos)
        if i < 0:
            return bytes(out)
        size_text = data[pos:i].split(b";", 1)[0].strip()
        try:
            size = int(size_text, 16)
        except ValueError:
            return bytes(out)
        pos = i + 2
        if size == 0:
            return bytes(out)
        out += data[pos : pos + size]
        pos += size + 2
        if pos > len(data):
            return bytes(out)


class Expect:
    def __init__(self, tag: bytes) -> None:
        self.tag = tag
        self.method = ""
        self.raw_path = b""
        self.query = b""
        self.headers: List[tuple] = []
        self.version = ""
        self.body = b""
        self.completed = True
        self.conn_index = 0
        self.proto = ""


def _gen_h1_request(tape: Tape, tag: bytes, raw_headers: bool, allow_partial: bool, big: bool) -> tuple:
    """Returns (wire bytes, Expect, partial_cut or None)."""
    exp = Expect(tag)
    version = b"1.0" if tape.chance(1, 6, "h1.version") else b"1.1"
    body = b""
    method = tape.choice(METHODS, "h1.method")
    if tape.chance(1, 2, "h1.hasbody"):
        method = tape.choice(BODY_METHODS, "h1.bodymethod")
        body = gen_body(tape, big)
    target = gen_target(tape)
    headers = gen_headers(tape, h2=False)
    host_pos = tape.draw(len(headers) + 1, "h1.hostpos")
    hostname = tape.choice([b"Host", b"host", b"HOST"], "h1.hostname")
    headers.insert(host_pos, (hostname, b"example.test:8000"))
    headers.append((b"x-tag", tag))
    if tape.chance(1, 5, "h1.connhdr"):
        headers.append((b"Connection", b"keep-alive"))
    framing = "none"
    chunks: Optional[List[int]] = None
    if body or tape.chance(1, 4, "h1.emptyframed"):
        if version == b"1.1" and tape.chance(1, 2, "h1.chunked"):
            framing = "chunked"
            headers.append((b"Transfer-Encoding", b"chunked"))
            chunks = gen_chunk_sizes(tape, len(body))
        else:
            framing = "length"
            headers.append((tape.choice([b"Content-Length", b"content-length"], "h1.clname"),
                            str(len(body)).encode()))
    if version == b"1.1" and framing != "none" and body and tape.chance(1, 8, "h1.expect"):
        headers.append((b"Expect", b"100-continue"))
    # serialise with OWS variants
    out = bytearray(method + b" " + target + b" HTTP/" + version + b"\r\n")
    for name, value in headers:
        out += ows_variant(tape, name, value) + b"\r\n"
    out += b"\r\n"
    head_len = len(out)
    if framing == "chunked":
        ext = b";ext=1" if tape.chance(1, 6, "h1.chunkext") else b""
        trailers = [(b"X-Trailer", b"t")] if tape.chance(1, 6, "h1.trailers") else None
        full = h1peer.build_request(b"X", b"/", [], body, chunks=chunks, chunk_ext=ext, trailers=trailers)
        out += full[full.index(b"\r\n\r\n") + 4 :]
    else:
        out += body
    wire = bytes(out)
    exp.method = method.decode().upper()
    raw_path, _, query = target.partition(b"?")
    exp.raw_path = raw_path
    exp.query = query
    exp.version = version.decode()
    exp.headers = [((n if raw_headers else n.lower()), v.strip(b" \t")) for n, v in headers]
    exp.body = body
    exp.proto = "h1"
    partial = None
    if allow_partial and body and len(wire) - head_len > 1 and tape.chance(1, 6, "h1.partial"):
        cutpos = head_len + tape.draw(len(wire) - head_len - 1, "h1.partialcut")
        partial = cutpos
        sent_body_wire = wire[head_len:cutpos]
        exp.body = decode_chunked_prefix(sent_body_wire) if framing == "chunked" else sent_body_wire
        exp.completed = False
    return wire, exp, partial


def _gen_h2_request(tape: Tape, tag: bytes, big: bool) -> tuple:
    exp = Expect(tag)
    method = tape.choice(METHODS, "h2.method")
    body = b""
    if tape.chance(1, 2, "h2.hasbody"):
        method = tape.choice(BODY_METHODS, "h2.bodymethod")
        body = gen_body(tape, big)
    target = gen_target(tape)
    headers = [(n, v.strip(b" \t")) for n, v in gen_headers(tape, h2=True)]
    headers.append((b"x-tag", tag))
    if body and tape.chance(1, 3, "h2.cl"):
        headers.append((b"content-length", str(len(body)).encode()))
    authority = tape.choice([b"example.test", b"h2.example:8000"], "h2.authority")
    pseudo = [(b":method", method), (b":scheme", b"http"), (b":authority", authority), (b":path", target)]
    if tape.chance(1, 4, "h2.pseudo.order"):
        pseudo = [pseudo[0], pseudo[3], pseudo[1], pseudo[2]]
    exp.method = method.decode().upper()
    raw_path, _, query = target.partition(b"?")
    exp.raw_path, exp.query = raw_path, query
    exp.version = "2"
    exp.headers = [(b"host", authority)] + headers
    exp.body = body
    exp.proto = "h2"
    spec = {
        "headers": pseudo + headers,
        "body": body,
        "end_on_headers": (not body) and tape.chance(2, 3, "h2.endonheaders"),
        "frame_sizes": gen_chunk_sizes(tape, len(body)) if body else [],
        "pad": tape.choice([0, 0, 0, 1, 7], "h2.pad") if body else 0,
        "hpad": tape.choice([0, 0, 3], "h2.hpad"),
        "split": [tape.draw(20, "h2.contsplit") + 1 for _ in range(3)] if tape.chance(1, 5, "h2.cont") else None,
        "priority": (0, 1 + tape.draw(255, "h2.weight"), False) if tape.chance(1, 6, "h2.prio") else None,
        "huffman": not tape.chance(1, 5, "h2.nohuff"),
        # request trailers: END_STREAM rides on a trailing HEADERS frame instead of the last DATA frame
        "trailers": [(b"x-req-trailer", b"t")] if (body and tape.chance(1, 5, "h2.reqtrailers")) else None,
    }
    if len(body) >= 300 and tape.chance(1, 8, "h2.heavypad"):
        # heavily padded upload: several hundred small DATA frames with the largest padding, so that the padding
        # alone is worth more than a 64 KiB window (the credit the server returns must count it)
        spec["pad"] = 255
        spec["frame_sizes"] = [max(1, len(body) // 320)] * 400
    return spec, exp


# ---------------------------------------------------------------------------------------------
def run(tape: Tape, params: dict) -> Outcome:
    case = params.get("case")
    if case is not None:
        tape = Tape(values=[])
    world = World(tape, params["worker"])
    sim = world.sim
    host = AppHost(sim, world.worker)
    world.app = host
    cfg = world.config
    out = Outcome()
    expects: List[Expect] = []
    scripts: List[Script] = []

    if case is not None:
        raw_headers = False
        if case["proto"] == "h1":
            req = SHORT_H1[case["req"]]
            tag = b"e%d" % case["req"]
            wire = _h1_bytes(req, tag)
            exp = Expect(tag)
            exp.method = req["method"].decode()
            exp.raw_path, _, exp.query = req["target"].partition(b"?")
            headers = list(req["headers"]) + [(b"x-tag", tag)]
            if req["framing"] == "length":
                headers.append((b"Content-Length", str(len(req["body"])).encode()))
            elif req["framing"] == "chunked":
                headers.append((b"Transfer-Encoding", b"chunked"))
            exp.headers = [(n.lower(), v) for n, v in headers]
            exp.version, exp.body, exp.proto = "1.1", req["body"], "h1"
            expects.append(exp)
            parser = h1peer.ResponseParser()
            parser.expect(req["method"])
            s = Script(world, [("send", wire), ("wait", responses_at_least(1), 20.0)], parser,
                       setup=lambda c: setattr(c, "split_at", [case["split"]]))
            s.start_at(0.1)
            scripts.append(s)
        else:
            req = SHORT_H2[case["req"]]
            tag = b"f%d" % case["req"]
            wire = _h2_case_bytes(req, tag)
            exp = Expect(tag)
            exp.method = req["method"].decode()
            exp.raw_path, _, exp.query = req["target"].partition(b"?")
            exp.headers = [(b"host", b"h2host")] + list(req["headers"]) + [(b"x-tag", tag)]
            exp.version, exp.body, exp.proto = "2", req["body"], "h2"
            expects.append(exp)
            peer = H2Peer()
            peer.open_stream(1)
            s = Script(world, [("send", wire), ("wait", lambda sc: sc.parser.stream_done(1), 20.0)], peer,
                       setup=lambda c: setattr(c, "split_at", [case["split"]]))
            s.start_at(0.1)
            scripts.append(s)
        sample = {"enumerated": case, "worker": params["worker"]}
    else:
        cfg.max_app_queue_size = 1 + tape.draw(10, "cfg.queue")
        # a read timeout must only ever limit the wait for client bytes; client pauses stay below it
        cfg.read_timeout = tape.choice([None, None, 0.3, 1.0], "cfg.readtimeout")
        raw_headers = tape.chance(1, 4, "cfg.rawheaders")
        cfg.h11_pass_raw_headers = raw_headers
        big = tape.chance(1, 8, "big")
        nconn = 1 + tape.weighted([6, 3, 1], "nconn")
        app_pause_kind = tape.weighted([4, 2, 2], "app.pace")
        sample = {"worker": params["worker"], "queue": cfg.max_app_queue_size, "raw_headers": raw_headers,
                  "read_timeout": cfg.read_timeout, "conns": []}
        for ci in range(nconn):
            proto = tape.weighted([5, 4, 1], "conn.proto")  # h1, h2 prior knowledge, h2c upgrade
            seg_mode = tape.weighted([3, 4, 1, 1], "conn.seg")
            seg = [0, 1, 2, 7 + tape.draw(100, "conn.segsize") if seg_mode == 3 else 0][seg_mode]
            lat = tape.choice([0.001, 0.0001, 0.01, 0.05], "conn.lat")

            def setup(conn: Any, seg: int = seg, lat: float = lat, big: bool = big) -> None:
                conn.seg_mode = 0 if (big and seg == 2) else seg
                conn.c2s_latency = lat
                conn.s2c_latency = lat

            nreq = 1 + tape.weighted([5, 3, 2], "conn.nreq")
            if cfg.read_timeout is not None:
                # read_timeout also expires while a slow application is answering (no client bytes are
                # due then), which ends the connection: one request per connection in these runs
                nreq = 1
            csample: Dict[str, Any] = {"proto": ["h1", "h2", "h2c"][proto], "seg_mode": seg, "reqs": []}
            if proto == 0:
                steps: List[tuple] = []
                parser = h1peer.ResponseParser()
                for ri in range(nreq):
                    tag = b"c%dr%d" % (ci, ri)
                    last = ri == nreq - 1
                    wire, exp, partial = _gen_h1_request(tape, tag, raw_headers, last, big)
                    exp.conn_index = ci
                    expects.append(exp)
                    parser.expect(exp.method.encode())
                    data = wire if partial is None else wire[:partial]
                    pieces = cut(data, split_points(tape, len(data), 1 + tape.weighted([5, 2, 2, 1], "c.pieces")))
                    for pi, piece in enumerate(pieces):
                        steps.append(("send", piece))
                        if pi < len(pieces) - 1:
                            steps.append(("sleep", tape.choice([0.0, 0.0005, 0.003, 0.02], "c.gap")))
                    csample["reqs"].append({"tag": tag.decode(), "method": exp.method, "target": bytes(exp.raw_path).decode("latin1"),
                                            "version": exp.version, "body": len(exp.body), "partial": partial is not None,
                                            "pieces": len(pieces)})
                    if partial is not None:
                        steps.append(("sleep", tape.choice([0.0, 0.002, 0.1], "c.fingap")))
                        steps.append(("fin",))
                        steps.append(("wait", lambda sc: False, 20.0))
                        break
                    steps.append(("wait", responses_at_least(ri + 1), 40.0))
                    if exp.version == "1.0":
                        break
                    if tape.chance(1, 4, "c.thinkpause"):
                        think = tape.choice([0.001, 0.5, 2.0], "c.think")
                        if cfg.read_timeout is not None:
                            think = min(think, cfg.read_timeout / 3)
                        steps.append(("sleep", think))
                s = Script(world, steps, parser, setup=setup)
            else:
                peer = H2Peer()
                steps = []
                if proto == 2:
                    tag = b"c%du" % ci
                    uexp = Expect(tag)
                    target = gen_target(tape)
                    uexp.method = "GET"
                    uexp.raw_path, _, uexp.query = target.partition(b"?")
                    hdrs = [(b"Host", b"up.example"), (b"x-tag", tag), (b"Connection", b"Upgrade, HTTP2-Settings"),
                            (b"Upgrade", b"h2c"), (b"HTTP2-Settings", peer.settings_payload_b64())]
                    uexp.headers = [(b"host", b"up.example")] + [(n.lower(), v) for n, v in hdrs[1:]]
                    uexp.version, uexp.proto, uexp.conn_index = "2", "h2c", ci
                    expects.append(uexp)
                    peer.open_stream(1)
                    peer.next_sid = 3
                    steps.append(("send", h1peer.build_request(b"GET", target, hdrs)))
                    parser_obj: Any = H2cUpgradeParser(peer)
                    if tape.chance(1, 2, "h2c.wait101"):
                        steps.append(("wait", lambda sc: sc.parser.switched or sc.parser.error, 20.0))
                    # else: preface and first frames ride directly behind the upgrade request
                    steps.append(("send", peer.preface()))
                    csample["reqs"].append({"tag": tag.decode(), "upgrade": "h2c"})
                else:
                    parser_obj = peer
                    steps.append(("send", peer.preface()))
                sids: List[int] = []
                concurrent = tape.chance(1, 2, "h2.concurrent")
                for ri in range(nreq):
                    tag = b"c%dr%d" % (ci, ri)
                    spec, exp = _gen_h2_request(tape, tag, big)
                    exp.conn_index = ci
                    expects.append(exp)
                    sid = peer.new_stream()
                    sids.append(sid)

                    def open_req(sc: Script, sid: int = sid, spec: dict = spec, peer: H2Peer = peer) -> None:
                        data = peer.headers(sid, spec["headers"], end_stream=spec["end_on_headers"],
                                            priority=spec["priority"], pad=spec["hpad"], split=spec["split"],
                                            huffman=spec["huffman"])
                        sc.conn.client.send(data)
                        if not spec["end_on_headers"]:
                            if spec["trailers"]:
                                peer.queue_upload(sid, spec["body"], False, spec["frame_sizes"], spec["pad"])
                                sc.marks.setdefault("trailers", []).append((sid, spec["trailers"]))
                            else:
                                peer.queue_upload(sid, spec["body"], True, spec["frame_sizes"], spec["pad"])

                    steps.append(("call", open_req))
                    if spec["trailers"]:
                        steps.append(("call", _trailers_sender(peer, sid, spec["trailers"])))
                    csample["reqs"].append({"tag": tag.decode(), "method": exp.method,
                                            "target": bytes(exp.raw_path).decode("latin1"), "body": len(exp.body),
                                            "frames": len(spec["frame_sizes"])})
                    if not concurrent:
                        steps.append(("wait", (lambda sid: lambda sc: _h2peer(sc).stream_done(sid))(sid), 40.0))
                    elif tape.chance(1, 3, "h2.gap"):
                        steps.append(("sleep", tape.choice([0.0005, 0.01], "h2.gapdt")))
                steps.append(("wait", (lambda sids: lambda sc: all(_h2peer(sc).stream_done(x) for x in sids))(list(sids)), 60.0))
                s = Script(world, steps, parser_obj, setup=setup)
            s.start_at(0.1 + 0.013 * ci)
            scripts.append(s)
            sample["conns"].append(csample)
        # applications: read everything at a tape-chosen pace, then answer
        pause = [None, ("yield", 1 + tape.draw(3, "app.yields")), ("sleep", tape.choice([0.0005, 0.004, 0.03], "app.sleep"))][app_pause_kind]
        sample["app_pause"] = pause
        host.default_program = [("recv_all", pause), ("respond", 200, [(b"content-length", b"2")], [b"ok"])]
        if pause is not None and pause[0] == "sleep":
            sim.fault("app.slow")

    world.run(end_at=120.0)
    host.drain_leftovers()
    out.sample = sample
    _check(world, host, expects, scripts, raw_headers, out)
    return finish_outcome(world, out)


def _trailers_sender(peer: H2Peer, sid: int, trailers: list) -> Any:
    """Sends the request trailers (HEADERS + END_STREAM) once the body upload has drained."""

    def send(sc: Script) -> None:
        if sc.ended:
            return
        if sid in peer.uploads:
            sc.sim.after(0.002, send, sc)
            return
        sc.conn.client.send(peer.headers(sid, trailers, end_stream=True))

    return send


def _h2peer(sc: Script) -> H2Peer:
    p = sc.parser
    return p.peer if isinstance(p, H2cUpgradeParser) else p


def _check(world: World, host: AppHost, expects: List[Expect], scripts: List[Script], raw_headers: bool,
           out: Outcome) -> None:
    def bad(rule: str, msg: str, **key: Any) -> None:
        out.violations.append(Violation(rule, msg, dict(key, worker=world.worker)))

    if world.result != "returned":
        # not part of this property's statement (C15/C04 judge it); kept as an advisory note
        out.notes.append(f"worker_serve ended with {world.result}")
    by_tag: Dict[bytes, List[Instance]] = {}
    for inst in host.instances:
        by_tag.setdefault(inst.tag, []).append(inst)
    for exp in expects:
        insts = by_tag.get(exp.tag, [])
        if len(insts) != 1:
            bad("one-instance", f"request {exp.tag!r} ({exp.proto}) started {len(insts)} application instances",
                proto=exp.proto)
            continue
        inst = insts[0]
        sc = inst.scope_snapshot
        conn = world.listener.conns[exp.conn_index] if exp.conn_index < len(world.listener.conns) else None
        want = {
            "type": "http",
            "method": exp.method,
            "path": own_unquote(exp.raw_path),
            "raw_path": exp.raw_path,
            "query_string": exp.query,
            "http_version": exp.version,
            "scheme": "http",
            "server": ("127.0.0.1", 8000),
        }
        if conn is not None:
            want["client"] = conn.client_addr
        for field, value in want.items():
            got = sc.get(field)
            if isinstance(got, list):
                got = tuple(got)
            if got != value:
                bad("scope-field", f"{exp.tag!r}: scope[{field!r}] = {sc.get(field)!r}, client sent {value!r}",
                    proto=exp.proto, field=field)
        got_headers = [(bytes(n), bytes(v)) for n, v in sc.get("headers", [])]
        if got_headers != exp.headers:
            bad("scope-headers", f"{exp.tag!r}: headers {got_headers!r} != sent {exp.headers!r}", proto=exp.proto)
        msgs = inst.all_delivered()
        reqs = [m for m in msgs if m.get("type") == "http.request"]
        body = b"".join(m.get("body", b"") for m in reqs)
        if body != exp.body:
            i = next((k for k in range(min(len(body), len(exp.body))) if body[k] != exp.body[k]),
                     min(len(body), len(exp.body)))
            bad("body-bytes", f"{exp.tag!r}: delivered body ({len(body)} bytes) differs from sent body "
                f"({len(exp.body)} bytes) at offset {i}", proto=exp.proto, completed=exp.completed)
        finals = [m for m in reqs if not m.get("more_body", False)]
        if exp.completed and len(finals) != 1:
            bad("body-end", f"{exp.tag!r}: {len(finals)} more_body=False messages for a completed body",
                proto=exp.proto)
        if exp.completed and finals and reqs[-1] is not finals[-1]:
            bad("body-end", f"{exp.tag!r}: http.request delivered after the more_body=False message", proto=exp.proto)
        if not exp.completed and finals:
            bad("body-end", f"{exp.tag!r}: more_body=False delivered although the client never completed the body",
                proto=exp.proto)
    extra = [i for i in host.instances if i.tag not in {e.tag for e in expects}]
    if extra:
        bad("one-instance", f"{len(extra)} application instances for requests never sent: "
            f"{[i.scope_snapshot.get('path') for i in extra]!r}")
