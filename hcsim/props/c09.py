"""C09 - HTTP/2 flow control is respected; multiplexed delivery is live and ordered."""
from __future__ import annotations

from typing import Any, Dict, List, Optional, Tuple

from ..apps import AppHost, Instance
from ..core import Tape
from ..peers.h2 import (H2Peer, S_INITIAL_WINDOW_SIZE, S_MAX_FRAME_SIZE)
from ..runner import Outcome, Violation, finish_outcome
from ..scen import Script
from ..world import World

ID = "C09"


def plan(tier: str) -> dict:
    return {
        "runs": 8000 if tier == "quick" else 300000,
        "budget": 150 if tier == "quick" else 900,
        "cases": [],
        "chunk": 30,
        "rule": "One HTTP/2 connection with 1..4 concurrent streams whose response bytes are a function of (stream, "
        "offset); initial windows from {0,1,100,16384,65535,200000}, max frame size {16384,32768,65536}, a "
        "tape-drawn schedule of stream/connection WINDOW_UPDATEs, SETTINGS_INITIAL_WINDOW_SIZE growth and "
        "shrinkage, SETTINGS_MAX_FRAME_SIZE changes, PRIORITY frames (incl. before HEADERS, exclusive, "
        "dependencies) and RST_STREAM at arbitrary points; the peer's own ledger checks every DATA frame, a "
        "quiescent snapshot checks liveness (no stream with credit and data may be idle), a final grant checks "
        "completeness and order.",
        "assumptions": ["applications produce all their data at once (their sends are only paced by backpressure)"],
    }


def random_params(i: int, tier: str) -> dict:
    return {"worker": "asyncio" if i % 2 == 0 else "trio"}


def pattern(sid: int, n: int) -> bytes:
    return bytes(((sid * 37 + i * 7 + (i >> 8) * 3) & 0xFF) for i in range(n))


def run(tape: Tape, params: dict) -> Outcome:
    world = World(tape, params["worker"])
    sim = world.sim
    host = AppHost(sim, world.worker)
    world.app = host
    world.config.keep_alive_timeout = 30.0
    out = Outcome()
    window = tape.choice([65535, 0, 1, 100, 16384, 200000], "h2.window")
    max_frame = tape.choice([16384, 32768, 65536], "h2.maxframe")
    peer = H2Peer(initial_window=window, max_frame=max_frame, auto_window=False)
    peer.clock = lambda: sim.now
    seg = [0, 1, 7][tape.weighted([3, 3, 1], "conn.seg")]
    lat = tape.choice([0.001, 0.0001, 0.01], "conn.lat")
    sndbuf = tape.choice([262144, 65536, 4096], "conn.sndbuf")

    def setup(conn: Any) -> None:
        conn.seg_mode = seg
        conn.c2s_latency = conn.s2c_latency = lat
        conn.sndbuf = sndbuf

    nstream0, spos = tape.draw_count(4, "nstreams")
    streams: Dict[int, Dict[str, Any]] = {}
    steps: List[tuple] = [("send", peer.preface())]
    prio_before: List[bytes] = []
    for k in range(1 + nstream0):
        tape.span_begin(spos)
        sid = peer.new_stream()
        size = tape.choice([0, 1, 500, 20000, 70000, 150000, 300000], "resp.size") + tape.draw(50, "resp.jitter")
        nchunks = 1 + tape.draw(6, "resp.nchunks")
        data = pattern(sid, size)
        bounds = sorted({tape.draw(size + 1, "resp.cut") for _ in range(nchunks - 1)}) if size else []
        chunks = []
        prev = 0
        for b in bounds + [size]:
            chunks.append(data[prev:b])
            prev = b
        tag = b"s%d" % sid
        host.programs[tag] = [("recv_all",), ("respond", 200, [], chunks)]
        prio = None
        if tape.chance(1, 4, "prio.headers"):
            dep = tape.choice([0] + [s for s in streams], "prio.dep")
            prio = (dep, 1 + tape.draw(255, "prio.weight"), tape.chance(1, 3, "prio.excl"))
        if tape.chance(1, 6, "prio.before"):
            prio_before.append(peer.priority(sid, 0, 1 + tape.draw(255, "prio.weight2"), tape.chance(1, 4, "prio.excl2")))
        streams[sid] = {"size": size, "data": data, "tag": tag, "prio": prio, "reset_at": None}
        tape.span_end()

    def open_all(sc: Script) -> None:
        for frame in prio_before:
            sc.conn.client.send(frame)
        for sid, info in streams.items():
            hdrs = [(b":method", b"GET"), (b":scheme", b"http"), (b":authority", b"example.test"),
                    (b":path", b"/" + info["tag"]), (b"x-tag", info["tag"])]
            sc.conn.client.send(peer.headers(sid, hdrs, end_stream=True, priority=info["prio"]))

    steps.append(("call", open_all))
    # schedule of credit / settings / priority / reset events
    nev0, epos = tape.draw_count(12, "nevents")
    t = 0.2
    events: List[tuple] = []
    sids = list(streams)
    for _ in range(nev0):
        tape.span_begin(epos)
        t += tape.choice([0.0, 0.001, 0.05, 0.3], "ev.gap")
        kind = tape.weighted([5, 4, 2, 1, 2, 2], "ev.kind")
        if kind == 0:
            events.append((t, "wu", tape.choice(sids, "ev.sid"), tape.choice([1, 10, 1000, 16384, 70000, 500000], "ev.inc")))
        elif kind == 1:
            events.append((t, "wu", 0, tape.choice([1, 10, 1000, 16384, 70000, 500000], "ev.inc")))
        elif kind == 2:
            events.append((t, "settings-window", tape.choice([0, 1, 1000, 65535, 300000], "ev.window")))
        elif kind == 3:
            events.append((t, "settings-frame", tape.choice([16384, 20000, 65536], "ev.frame")))
        elif kind == 4:
            sid = tape.choice(sids, "ev.sid")
            dep = tape.choice([0] + [s for s in sids if s != sid], "ev.dep")
            events.append((t, "priority", sid, dep, 1 + tape.draw(255, "ev.weight"), tape.chance(1, 3, "ev.excl")))
        else:
            events.append((t, "rst", tape.choice(sids, "ev.sid")))
        tape.span_end()
    t_snap = t + 2.0
    snapshot: Dict[str, Any] = {}

    def fire(sc: Script, ev: tuple) -> None:
        if sc.ended:
            return
        kind = ev[1]
        c = sc.conn.client
        if kind == "wu":
            sid, inc = ev[2], ev[3]
            if sid != 0 and (peer.stream_done(sid)):
                return
            cur = peer.conn_recv_window if sid == 0 else peer.streams[sid].recv_window
            if cur + inc > 2**31 - 1:
                return
            c.send(peer.window_update(sid, inc))
        elif kind == "settings-window":
            if all(s.recv_window - peer.our_initial_window + ev[2] <= 2**31 - 1 for s in peer.streams.values()):
                c.send(peer.settings({S_INITIAL_WINDOW_SIZE: ev[2]}))
                sim.fault("h2.settings_window")
        elif kind == "settings-frame":
            c.send(peer.settings({S_MAX_FRAME_SIZE: ev[2]}))
        elif kind == "priority":
            c.send(peer.priority(ev[2], ev[3], ev[4], ev[5]))
        elif kind == "rst":
            sid = ev[2]
            if not peer.stream_done(sid):
                c.send(peer.rst_stream(sid, 8))
                streams[sid]["reset_at"] = sim.now
                sim.fault("h2.rst_stream")

    def arm(sc: Script) -> None:
        for ev in events:
            sim.at(ev[0], fire, sc, ev)
        sim.at(t_snap, take_snapshot, sc)
        sim.at(t_snap + 0.5, finisher, sc)

    def take_snapshot(sc: Script) -> None:
        snapshot["time"] = sim.now
        snapshot["conn_window"] = peer.conn_recv_window
        snapshot["ended"] = sc.ended
        snapshot["streams"] = {
            sid: {"window": peer.streams[sid].recv_window, "got": len(peer.streams[sid].data),
                  "ended": peer.streams[sid].ended, "reset": peer.streams[sid].reset,
                  "status": peer.streams[sid].status}
            for sid in streams if sid in peer.streams
        }

    def finisher(sc: Script) -> None:
        if sc.ended:
            return
        c = sc.conn.client
        # make sure frames fit, then grant plenty of credit everywhere
        c.send(peer.window_update(0, max(1, 2_000_000 - peer.conn_recv_window)))
        for sid in streams:
            st = peer.streams.get(sid)
            if st is not None and not peer.stream_done(sid):
                c.send(peer.window_update(sid, max(1, 1_000_000 - st.recv_window)))

    steps.append(("call", arm))
    steps.append(("wait", lambda sc: sim.now > t_snap + 0.6 and all(peer.stream_done(s) for s in streams), t_snap + 20.0))
    script = Script(world, steps, peer, setup=setup)
    script.start_at(0.1)
    world.run(end_at=t_snap + 25.0)
    host.drain_leftovers()
    out.sample = {"worker": world.worker, "window": window, "max_frame": max_frame, "seg": seg, "sndbuf": sndbuf,
                  "streams": {sid: {"size": i["size"], "prio": i["prio"]} for sid, i in streams.items()},
                  "events": [list(e) for e in events][:14]}
    _check(world, host, peer, streams, snapshot, script, out)
    return finish_outcome(world, out)


def _check(world: World, host: AppHost, peer: H2Peer, streams: Dict[int, Dict[str, Any]], snapshot: Dict[str, Any],
           script: Script, out: Outcome) -> None:
    # known finding F47: the priority library's tree has been driven into a cycle by the PRIORITY frames of this
    # run and remove_stream() would never return (the watchdog in World turned that into an exception)
    cause = "priority-lib-cycle" if world.sim.probes.get("priority.tree_loop") else "other"

    def bad(rule: str, msg: str, **key: Any) -> None:
        out.violations.append(Violation(rule, msg, dict(key, worker=world.worker, cause=cause)))

    if cause == "priority-lib-cycle":
        bad("no-spinning", "the send task entered an endless loop inside priority.PriorityTree.remove_stream: the "
            "PRIORITY frames of this connection left a cycle in the library's dependency tree")
        return
    if world.result == "spin":
        bad("no-spinning", f"event loop spun without I/O: {world.exception}")
    elif world.result not in ("returned",):
        bad("server-survives", f"worker_serve ended with {world.result}: {world.exception!r}")
    for v in peer.flow_violations:
        bad("flow-control", v)
    for e in peer.errors:
        bad("wire-wellformed", e)
    if peer.goaway is not None and peer.goaway[1] != 0:
        bad("goaway", f"server sent GOAWAY with error {peer.goaway[1]} (FLOW_CONTROL_ERROR=3, PROTOCOL_ERROR=1)")
    started = {i.tag for i in host.instances}
    for sid, info in streams.items():
        st = peer.streams.get(sid)
        if st is None:
            continue
        data = bytes(st.data)
        if data != info["data"][: len(data)]:
            i = next(k for k in range(len(data)) if data[k] != info["data"][k])
            bad("order", f"stream {sid}: DATA payload differs from the application's bytes at offset {i}")
        reset_by_us = info["reset_at"] is not None
        if st.after_end:
            bad("end-once", f"stream {sid}: {st.after_end} frames after the stream ended")
        if not reset_by_us:
            if st.reset is not None and st.reset >= 0:
                bad("complete", f"stream {sid}: server reset the stream (code {st.reset}) although it was never "
                    f"reset by the client")
            elif info["tag"] in started and not script.ended:
                if st.ended != 1:
                    bad("complete", f"stream {sid}: {st.ended} END_STREAM after unlimited credit was granted "
                        f"({len(data)} of {info['size']} bytes delivered)", delivered=bool(data))
                elif data != info["data"]:
                    bad("complete", f"stream {sid}: ended with {len(data)} of {info['size']} bytes")
    # liveness at the quiescent snapshot
    if snapshot and not snapshot.get("ended"):
        conn_window = snapshot["conn_window"]
        for sid, snap in snapshot["streams"].items():
            info = streams[sid]
            if info["reset_at"] is not None or snap["reset"] is not None or snap["ended"]:
                continue
            if info["tag"] not in started:
                continue
            remaining = info["size"] - snap["got"]
            if snap["status"] is None:
                bad("liveness", f"stream {sid}: no response head although headers need no flow-control credit")
            elif remaining > 0 and snap["window"] > 0 and conn_window > 0:
                bad("liveness", f"stream {sid}: idle at quiescence with {remaining} bytes left, stream window "
                    f"{snap['window']} and connection window {conn_window} both open")
            elif remaining == 0:
                bad("liveness", f"stream {sid}: all {info['size']} bytes delivered but no END_STREAM at quiescence "
                    f"(END_STREAM needs no credit)")
