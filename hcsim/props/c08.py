"""C08 - send backpressure is applied, bounded, and always released."""
from __future__ import annotations

from typing import Any, Dict, List, Optional

from ..apps import AppHost, Instance
from ..core import Tape
from ..peers import h1 as h1peer
from ..peers.h2 import H2Peer
from ..runner import Outcome, Violation, finish_outcome
from ..scen import Script, responses_at_least
from ..world import World

ID = "C08"
BOUND = 512 * 1024  # fixed bound on response data held per stream (independent of the response size)
DELTA = 1.0
RELEASES_H1 = ["resume", "close", "rst", "write_err"]
RELEASES_H2 = ["window_update", "window_update_conn", "rst_stream", "close", "rst", "write_err", "fin"]


def _cases() -> List[dict]:
    cases = []
    for worker in ("asyncio", "trio"):
        for rel in RELEASES_H1:
            for final_drain in (False, True):
                cases.append({"worker": worker, "case": {"proto": "h1", "release": rel, "final_drain": final_drain}})
        for rel in RELEASES_H2:
            for final_drain in (False, True):
                cases.append({"worker": worker, "case": {"proto": "h2", "release": rel, "final_drain": final_drain}})
        for rel in ("window_update", "rst_stream"):
            cases.append({"worker": worker, "case": {"proto": "h2", "release": rel, "final_drain": False,
                                                     "pace": "dribble"}})
    return cases


def plan(tier: str) -> dict:
    return {
        "runs": 6000 if tier == "quick" else 300000,
        "budget": 150 if tier == "quick" else 900,
        "cases": _cases(),
        "chunk": 10,
        "rule": "Responses of 1-4 MiB written in chunks of up to 64 KiB against a client that has stopped reading "
        "(HTTP/1) or whose HTTP/2 stream window is zero / a few bytes and never reopens, while a second "
        "connection and a sibling stream carry ordinary traffic; then one release event (resume / WINDOW_UPDATE / "
        "RST_STREAM / client FIN / close / RST / failing write) at a tape-chosen instant - mid-body or on the final "
        "drain. A byte ledger (bytes the application handed to send() minus bytes that reached the socket) is "
        "sampled during the stall; pending sends must return within 1 s of the release.",
        "enumerated": ["release kind x waiting point {mid-body, final drain} x {HTTP/1, HTTP/2} x 2 workers"],
        "assumptions": ["512 KiB + one chunk is taken as 'a fixed bound independent of the response size' (the "
                        "current marks are 32 KiB per HTTP/2 stream and 64 KiB per asyncio transport)"],
    }


def random_params(i: int, tier: str) -> dict:
    cases = _cases()
    c = cases[(i * 131) % len(cases)]
    return {"worker": c["worker"], "case": c["case"], "vary": True}


def run(tape: Tape, params: dict) -> Outcome:
    case = params["case"]
    if not params.get("vary"):
        tape = Tape(values=[])
    world = World(tape, params["worker"])
    sim = world.sim
    host = AppHost(sim, world.worker)
    world.app = host
    world.config.keep_alive_timeout = 30.0
    out = Outcome()
    chunk = tape.choice([65536, 16384, 4096, 60000], "resp.chunk")
    total = tape.choice([1 << 20, 2 << 20, 4 << 20], "resp.total")
    nchunks = total // chunk
    data_chunk = bytes((i * 13) & 0xFF for i in range(chunk))
    final_drain = case["final_drain"]
    if final_drain:
        # small response that fits the buffers: the application ends up waiting in the final send only
        nchunks = 1 + tape.draw(3, "resp.fewchunks")
        if case["proto"] == "h2":
            data_chunk = data_chunk[: min(chunk, 8000)]
    chunks = [data_chunk] * nchunks
    host.programs[b"big"] = [("recv_all",), ("respond", 200, [], chunks)]
    host.programs[b"other"] = [("recv_all",), ("respond", 200, [], [b"other-ok"])]
    t_release = 1.0 + tape.choice([0.0, 0.5, 3.0], "release.at")
    samples: List[tuple] = []
    info: Dict[str, Any] = {"case": case, "worker": world.worker, "chunk": len(data_chunk), "nchunks": nchunks,
                            "t_release": t_release}
    state: Dict[str, Any] = {}
    lat = tape.choice([0.001, 0.0001, 0.01], "conn.lat")

    def inst_big() -> Optional[Instance]:
        for i in host.instances:
            if i.tag == b"big":
                return i
        return None

    def issued_bytes() -> int:
        inst = inst_big()
        if inst is None:
            return 0
        return sum(len(e[2].get("body", b"")) for e in inst.sends if e[2].get("type") == "http.response.body")

    if case["proto"] == "h1":
        parser = h1peer.ResponseParser()
        parser.expect(b"GET")

        def setup(conn: Any) -> None:
            conn.sndbuf = tape.choice([65536, 16384, 262144], "conn.sndbuf")
            conn.c2s_latency = conn.s2c_latency = lat
            if case["release"] == "write_err":
                conn.fail_send_at = None

        def sample(sc: Script) -> None:
            if sc.conn is not None:
                samples.append((sim.now, issued_bytes(), sc.conn.server.sent_total))

        def release(sc: Script) -> None:
            sample(sc)
            state["t_release"] = sim.now
            rel = case["release"]
            c = sc.conn.client
            if rel == "resume":
                c.resume()
            elif rel == "close":
                c.close()
            elif rel == "rst":
                c.rst()
            elif rel == "write_err":
                sc.conn.fail_send_at = sc.conn.server._send_calls + 1
                c.resume()

        steps = [("stall",), ("send", b"GET /big HTTP/1.1\r\nHost: example.test\r\nx-tag: big\r\n\r\n"),
                 ("call", lambda sc: [sim.at(t, sample, sc) for t in (0.3, 0.6, t_release - 0.01)]),
                 ("call", lambda sc: sim.at(t_release, release, sc)),
                 ("wait", lambda sc: len(sc.parser.responses) >= 1, 60.0)]
        script = Script(world, steps, parser, setup=setup)
        script.start_at(0.1)
    else:
        window = 0 if not final_drain else tape.choice([0, 1, 100], "h2.window")
        conn_limited = case["release"] == "window_update_conn"
        if conn_limited:
            # the stream window is ample: the connection window (65535) is what runs out, and only
            # connection-level credit arrives at the release
            window = 16 << 20
            if final_drain:
                nchunks, data_chunk = 3, bytes(data_chunk[:1]) * 30000
                chunks = [data_chunk] * nchunks
                host.programs[b"big"] = [("recv_all",), ("respond", 200, [], chunks)]
        peer = H2Peer(initial_window=window, auto_window=False)
        peer.clock = lambda: sim.now
        sid_big, sid_sib = peer.new_stream(), peer.new_stream()
        state["peer"], state["sid"] = peer, sid_big

        def setup(conn: Any) -> None:
            conn.c2s_latency = conn.s2c_latency = lat

        def sample(sc: Script) -> None:
            st = peer.streams.get(sid_big)
            samples.append((sim.now, issued_bytes(), len(st.data) if st else 0))

        def open_streams(sc: Script) -> None:
            for sid, tag in ((sid_big, b"big"), (sid_sib, b"other")):
                hdrs = [(b":method", b"GET"), (b":scheme", b"http"), (b":authority", b"example.test"),
                        (b":path", b"/" + tag), (b"x-tag", tag)]
                sc.conn.client.send(peer.headers(sid, hdrs, end_stream=True))
            # the sibling gets credit, the big stream does not
            if not conn_limited:
                sc.conn.client.send(peer.window_update(sid_sib, 100000))
            if case.get("pace") == "dribble":
                sc.conn.client.send(peer.window_update(0, 50_000_000))
                # credit arrives in pieces much smaller than a frame: the server may pass those on, but
                # what it holds must stay bounded all the same
                piece = tape.choice([100, 1, 5000], "dribble.piece")
                t = 0.2
                while t < t_release - 0.02:
                    sim.at(t, dribble, sc, piece)
                    t += 0.004

        def dribble(sc: Script, piece: int) -> None:
            if sc.ended or peer.stream_done(sid_big):
                return
            sc.conn.client.send(peer.window_update(sid_big, piece))
            sim.fault("h2.dribbled_credit")

        def release(sc: Script) -> None:
            sample(sc)
            state["t_release"] = sim.now
            rel = case["release"]
            c = sc.conn.client
            if rel == "window_update":
                c.send(peer.window_update(0, 50_000_000))
                c.send(peer.window_update(sid_big, 50_000_000))
                peer.auto_window = True
            elif rel == "window_update_conn":
                c.send(peer.window_update(0, 50_000_000))
                sim.at(sim.now + 0.5, lambda: setattr(peer, "auto_window", True))
            elif rel == "rst_stream":
                c.send(peer.rst_stream(sid_big, 8))
            elif rel == "close":
                c.close()
            elif rel == "fin":
                c.fin()
            elif rel == "rst":
                c.rst()
            elif rel == "write_err":
                sc.conn.fail_send_at = sc.conn.server._send_calls + 1
                c.send(peer.window_update(sid_big, 50_000_000))

        steps = [("send", peer.preface()), ("call", open_streams),
                 ("call", lambda sc: [sim.at(t, sample, sc) for t in (0.3, 0.6, t_release - 0.01)]),
                 ("call", lambda sc: sim.at(t_release, release, sc)),
                 ("wait", lambda sc: peer.stream_done(sid_big), 60.0)]
        script = Script(world, steps, peer, setup=setup)
        script.start_at(0.1)
    # a second connection must be served while the first one is stalled
    other_parser = h1peer.ResponseParser()
    other_parser.expect(b"GET")
    other = Script(world, [("send", b"GET /other HTTP/1.1\r\nHost: example.test\r\nx-tag: other\r\n\r\n"),
                           ("wait", responses_at_least(1), 5.0), ("mark", "done")], other_parser)
    other.start_at(0.5)
    world.run(end_at=t_release + 70.0)
    host.drain_leftovers()
    out.sample = info
    _check(world, host, case, script, other, samples, state, t_release, len(data_chunk), out)
    return finish_outcome(world, out)


def _check(world: World, host: AppHost, case: dict, script: Script, other: Script, samples: List[tuple],
           state: Dict[str, Any], t_release: float, chunk: int, out: Outcome) -> None:
    def bad(rule: str, msg: str, **key: Any) -> None:
        out.violations.append(Violation(rule, msg, dict(key, worker=world.worker, proto=case["proto"],
                                                        release=case["release"], final_drain=case["final_drain"])))

    if world.result != "returned":
        bad("server-survives", f"worker_serve ended with {world.result}: {world.exception!r}")
    inst = next((i for i in host.instances if i.tag == b"big"), None)
    if inst is None:
        bad("started", "the large request never reached the application")
        return
    # 1. bounded while the peer accepts nothing
    for t, issued, wire in samples:
        if t < t_release:
            held = issued - wire
            if held > BOUND + chunk:
                bad("held-bound", f"at t={t:.2f} the application had handed over {issued} body bytes of which only "
                    f"{wire} had left the server: {held} bytes held (> {BOUND} + one chunk)")
                break
    # 2. others keep working during the stall
    done = other.marks.get("done")
    if not other.parser.responses or other.parser.responses[0].status != 200 or done is None or done[1] > t_release:
        bad("others-blocked", f"a second connection was not served while the first one was stalled "
            f"(done at {done[1] if done else None}, release at {t_release})")
    if case["proto"] == "h2":
        peer, sid = state["peer"], state["sid"]
        sib = peer.streams.get(sid + 2)
        t_sib = peer.end_times.get(sid + 2)
        if case["release"] == "window_update_conn":
            pass  # an exhausted connection window legitimately holds every stream
        elif sib is None or not sib.complete or t_sib is None or t_sib > t_release:
            bad("others-blocked", f"sibling stream did not complete during the stall (ended at {t_sib})")
    # 3. released promptly: every send issued before the release returns within DELTA of it
    t_rel = state.get("t_release", t_release)
    for entry in inst.sends:
        issued_at, done_at = entry[1], entry[5]
        if issued_at <= t_rel and (entry[3] in ("pending",) or done_at is None or done_at > t_rel + DELTA):
            if case["release"] in ("resume", "window_update", "window_update_conn"):
                # pressure abated: the send in progress at the release must make progress promptly
                bad("release", f"send({entry[2]['type']}) issued at {issued_at:.3f} was still waiting "
                    f"{DELTA}s after the pressure abated at {t_rel:.3f} (returned: {done_at})")
            else:
                bad("release", f"send({entry[2]['type']}) issued at {issued_at:.3f} did not return within {DELTA}s "
                    f"of the {case['release']} at {t_rel:.3f} (returned: {done_at}, outcome {entry[3]})")
            break
    if inst.end is None or (inst.end_time is not None and inst.end_time > t_rel + 60):
        bad("release", f"application still inside send() long after the release (end: {inst.end} at {inst.end_time})")
