"""C10 - WebSocket message fidelity and message-size limit."""
from __future__ import annotations

from typing import Any, List, Optional, Tuple

from ..apps import AppHost, Instance
from ..core import Tape
from ..peers import ws as wsp
from ..peers.h2 import S_INITIAL_WINDOW_SIZE
from ..runner import Outcome, Violation, finish_outcome
from ..wsgen import WSSession, app_ws_echo, build_ws_script, message_frames
from ..world import World

ID = "C10"
TEXT_ALPHABET = ["a", "Z", "0", " ", "é", "€", "\U0001f600", "中"]


def plan(tier: str) -> dict:
    return {
        "runs": 8000 if tier == "quick" else 400000,
        "budget": 150 if tier == "quick" else 900,
        "cases": _boundary_cases(),
        "chunk": 40,
        "rule": "WebSocket sessions over HTTP/1.1 upgrade and HTTP/2 extended CONNECT: 1..6 text/binary messages "
        "(empty, 1 byte, multi-byte UTF-8, sizes around websocket_max_message_size counted in characters for text "
        "and bytes for binary), arbitrary fragmentation (also inside a code point), pings between fragments, "
        "permessage-deflate on/off, every recv segmentation mode; the application echoes and sends its own "
        "messages; an own frame parser on the client side checks echoes, pongs and the 1009 close.",
        "enumerated": ["sizes {limit-1, limit, limit+1} x {text multi-byte, binary} x {h1, h2} x {asyncio, trio} "
                       "for limit in {16, 100}"],
    }


def _boundary_cases() -> List[dict]:
    cases = []
    for worker in ("asyncio", "trio"):
        for carrier in ("h1", "h2"):
            for limit in (16, 100):
                for kind in ("text", "bytes"):
                    for delta in (-1, 0, 1):
                        cases.append({"worker": worker, "case": {"carrier": carrier, "limit": limit, "kind": kind,
                                                                  "delta": delta}})
    return cases


def random_params(i: int, tier: str) -> dict:
    return {"worker": "asyncio" if i % 2 == 0 else "trio"}


def _gen_value(tape: Tape, kind: str, size: int) -> Any:
    if kind == "text":
        return "".join(TEXT_ALPHABET[tape.draw(len(TEXT_ALPHABET), "ws.char")] for _ in range(size))
    seed = tape.draw(251, "ws.byteseed")
    return bytes((seed + 3 * i) & 0xFF for i in range(size))


def run(tape: Tape, params: dict) -> Outcome:
    case = params.get("case")
    if case is not None:
        tape = Tape(values=[])
    world = World(tape, params["worker"])
    host = AppHost(world.sim, world.worker)
    world.app = host
    out = Outcome()
    cfg = world.config
    if case is not None:
        carrier = case["carrier"]
        limit = case["limit"]
        msgs = [("text", "ok")]
        size = limit + case["delta"]
        if case["kind"] == "text":
            msgs.append(("text", ("€" * size)))
        else:
            msgs.append(("bytes", bytes(range(256)) * (size // 256) + bytes(range(size % 256))))
        msgs.append(("text", "after"))
        offer_deflate = False
        seg = 0
        app_first: List[tuple] = []
    else:
        carrier = ["h1", "h2"][tape.weighted([3, 2], "ws.carrier")]
        limit = tape.choice([16 * 1024 * 1024, 16, 100, 1000], "cfg.wslimit")
        offer_deflate = tape.chance(1, 2, "ws.deflate")
        seg = [0, 1, 2, 7][tape.weighted([3, 4, 1, 1], "conn.seg")]
        nmsg = 1 + tape.draw(6, "ws.nmsg")
        msgs = []
        for _ in range(nmsg):
            kind = tape.choice(["text", "bytes"], "ws.kind")
            sk = tape.weighted([2, 2, 4, 3, 1], "ws.sizekind")
            if sk == 0:
                size = 0
            elif sk == 1:
                size = 1
            elif sk == 2:
                size = 2 + tape.draw(60, "ws.small")
            elif sk == 3 and limit <= 1000:
                size = max(0, limit + tape.choice([-1, 0, 1, 1, 5], "ws.around"))
            elif sk == 3:
                size = 200 + tape.draw(3000, "ws.medium")
            else:
                size = 20000 + tape.draw(60000, "ws.big")
            msgs.append((kind, _gen_value(tape, kind, size)))
        app_first = []
        for _ in range(tape.draw(3, "ws.appfirst")):
            k = tape.choice(["text", "bytes"], "ws.appkind")
            app_first.append((k, _gen_value(tape, k, tape.choice([0, 1, 17, 300, 70000], "ws.appsize"))))
    cfg.websocket_max_message_size = limit
    sess = WSSession(carrier, b"w0")
    host.programs[b"w0"] = [("call", app_ws_echo(first=app_first))]

    def setup(conn: Any) -> None:
        conn.seg_mode = seg

    ops: List[tuple] = []
    expect_ok: List[Tuple[str, Any]] = []
    too_big = False
    # HTTP/2 carrier: the client may shrink SETTINGS_INITIAL_WINDOW_SIZE in mid-session (the stream's send
    # window can become negative, RFC 7540 6.9.2) and reopen it a little later
    shrink_at = None
    if case is None and carrier == "h2" and tape.chance(1, 4, "h2.shrink"):
        shrink_at = tape.draw(len(msgs), "h2.shrink.at")
        shrink_to = tape.choice([0, 10, 1000], "h2.shrink.to")

        def shrink(sc: Any) -> None:
            sc.conn.client.send(sess.peer.settings({S_INITIAL_WINDOW_SIZE: shrink_to}))
            world.sim.fault("h2.settings_window_shrink")

        def reopen(sc: Any) -> None:
            if not sc.ended:
                sc.conn.client.send(sess.peer.settings({S_INITIAL_WINDOW_SIZE: 65535}))
    for mi, (kind, value) in enumerate(msgs):
        size = len(value)
        if shrink_at == mi:
            ops.append(("call", shrink))
            ops.append(("sleep", 0.01))
        compress = offer_deflate and tape.chance(2, 3, "ws.compress")

        def frames(kind: str = kind, value: Any = value, compress: bool = compress) -> bytes:
            return message_frames(tape, sess, kind, value, compress=compress, pings=case is None)

        ops.append(("frames", frames))
        if shrink_at == mi:
            ops.append(("sleep", 0.05))
            ops.append(("call", reopen))
        if not too_big:
            if size > limit:
                too_big = True
            else:
                expect_ok.append((kind, value))
        if case is None and tape.chance(1, 4, "ws.gap"):
            ops.append(("sleep", tape.choice([0.0005, 0.01], "ws.gapdt")))
    n_expected = len(app_first) + len(expect_ok)
    ops.append(("wait", lambda sc: sess.ws is not None and (len(sess.ws.messages) >= n_expected and not too_big
                                                            or sess.ws.close is not None), 30.0))
    if not too_big:
        ops.append(("frames", lambda: wsp.frame(wsp.OP_PING, b"last-ping")))
        ops.append(("wait", lambda sc: sess.ws is not None and b"last-ping" in sess.ws.pongs, 10.0))
        ops.append(("close", 1000, b"bye"))
    ops.append(("wait", lambda sc: sess.ws is not None and sess.ws.close is not None, 10.0))
    ops.append(("sleep", 0.05))
    if carrier == "h1":
        ops.append(("tcpclose",))
    else:
        ops.append(("tcpclose",))
    script = build_ws_script(world, tape, sess, b"/ws", ops, setup, offer_deflate=offer_deflate)
    script.start_at(0.1)
    world.run(end_at=90.0)
    host.drain_leftovers()
    out.sample = {"worker": world.worker, "carrier": carrier, "limit": limit, "deflate_offered": offer_deflate,
                  "seg": seg, "messages": [(k, len(v)) for k, v in msgs], "app_first": [(k, len(v)) for k, v in app_first],
                  "case": case}
    _check(world, host, sess, msgs, expect_ok, too_big, app_first, limit, out)
    return finish_outcome(world, out)


def _check(world: World, host: AppHost, sess: WSSession, msgs: list, expect_ok: list, too_big: bool,
           app_first: list, limit: int, out: Outcome) -> None:
    cause = "deflate-control-interleave" if "deflate-control-interleave" in sess.flags else "other"
    conn = sess.script.conn
    if cause == "other" and sess.carrier == "h2" and world.reader_push_blocked_at_trigger > 0:
        # the server stopped reading although bytes were pending for a long time: its reader is parked in
        # StreamBuffer.push (a pong / close reply behind a buffer that only a WINDOW_UPDATE - which the
        # reader itself would have to read - can drain): known finding F21
        cause = "h2-reader-blocked-on-push"

    def bad(rule: str, msg: str, **key: Any) -> None:
        out.violations.append(Violation(rule, msg, dict(key, worker=world.worker, carrier=sess.carrier, cause=cause)))

    if sess.ws is None:
        bad("handshake", f"valid handshake not accepted (status {sess.handshake_status()})")
        return
    ws = sess.ws
    if ws.errors:
        bad("wire-wellformed", f"client frame parser errors: {ws.errors[:3]}")
    insts = [i for i in host.instances if i.tag == b"w0"]
    if len(insts) != 1:
        bad("one-instance", f"{len(insts)} websocket instances")
        return
    inst = insts[0]
    got = []
    for m in inst.all_delivered():
        if m.get("type") == "websocket.receive":
            if m.get("text") is not None:
                got.append(("text", m["text"]))
            else:
                got.append(("bytes", bytes(m["bytes"])))
    if got != expect_ok:
        i = next((k for k in range(min(len(got), len(expect_ok))) if got[k] != expect_ok[k]), min(len(got), len(expect_ok)))
        desc = lambda x: (x[0], len(x[1])) if x else None  # noqa: E731
        bad("delivery", f"application received {len(got)} messages, expected {len(expect_ok)}; first difference at "
            f"index {i}: got {desc(got[i]) if i < len(got) else None}, expected "
            f"{desc(expect_ok[i]) if i < len(expect_ok) else None}", too_big=too_big,
            kind=(expect_ok[i][0] if i < len(expect_ok) else (got[i][0] if i < len(got) else "none")))
    if too_big:
        if ws.close is None or ws.close[0] != 1009:
            bad("close-1009", f"over-limit message (limit {limit}): close seen {ws.close}", limit_small=limit <= 1000)
    else:
        # pongs for every ping, same payloads, in order
        want_pongs = sess.sent_pings + [b"last-ping"]
        if ws.pongs != want_pongs:
            bad("pong", f"pongs {ws.pongs!r} != pings sent {want_pongs!r}")
        if ws.close is None:
            bad("close-echo", "client close frame (1000) was not answered with a close frame")
    # what the application sent reaches the client identically, in order (until the close)
    app_sent = []
    for entry in inst.sends:
        m = entry[2]
        if m.get("type") == "websocket.send" and entry[3] == "ok":
            if m.get("bytes") is not None:
                app_sent.append(("bytes", bytes(m["bytes"])))
            else:
                app_sent.append(("text", m["text"]))
    client_got = [m.as_tuple() for m in ws.messages]
    app_all = []
    for entry in inst.sends:
        m = entry[2]
        if m.get("type") == "websocket.send":
            app_all.append(("bytes", bytes(m["bytes"])) if m.get("bytes") is not None else ("text", m["text"]))
    if len(client_got) > len(app_sent) and client_got == app_all[: len(client_got)]:
        # a send still waiting on backpressure has already handed its data over: not a fidelity problem
        app_sent = app_all[: len(client_got)]
    if not too_big:
        if client_got != app_sent:
            i = next((k for k in range(min(len(client_got), len(app_sent))) if client_got[k] != app_sent[k]),
                     min(len(client_got), len(app_sent)))
            bad("app-to-client", f"client received {len(client_got)} messages, application sent {len(app_sent)}; "
                f"first difference at index {i}")
    else:
        if client_got != app_sent[: len(client_got)]:
            bad("app-to-client", "client received messages that differ from what the application sent")
