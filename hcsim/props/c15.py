"""C15 - graceful shutdown is orderly and bounded."""
from __future__ import annotations

from typing import Any, Dict, List, Optional

from ..apps import AppHost
from ..core import Tape
from ..peers import h1 as h1peer
from ..peers import ws as wsp
from ..peers.h2 import H2Peer
from ..runner import Outcome, Violation, finish_outcome
from ..scen import Script, responses_at_least
from ..wsgen import WSSession, build_ws_script
from ..world import World

ID = "C15"
DELTA = 0.1
SLACK = 0.5
KINDS = ["idle", "partial-head", "short", "long", "stuck", "h2-idle", "h2-short", "h2-stuck", "ws-open", "h2-two-short", "pipelined"]


def _cases() -> List[dict]:
    cases = []
    for worker in ("asyncio", "trio"):
        for kind in KINDS:
            for source in ("callable", "max_requests"):
                cases.append({"worker": worker, "case": {"kinds": [kind], "source": source}})
    return cases


def plan(tier: str) -> dict:
    return {
        "runs": 15000 if tier == "quick" else 1000000,
        "budget": 150 if tier == "quick" else 900,
        "cases": _cases(),
        "chunk": 30,
        "rule": "1..6 connections, each in one of nine phases at the trigger (idle keep-alive, partial request head, "
        "request finishing inside the grace period, request longer than it, request stuck for ever, HTTP/2 idle / "
        "with a short / with a stuck stream, open WebSocket), graceful_timeout and shutdown_timeout drawn from small "
        "sets, trigger by callable or by the worker's max_requests, lifespan shutdown program fast/slow/hanging; "
        "late connection attempts and late HTTP/2 streams after the trigger. Judged against the ordering model of "
        "shutdown with exact virtual instants.",
        "enumerated": ["connection kind x trigger source x worker (single connection)"],
    }


def random_params(i: int, tier: str) -> dict:
    return {"worker": "asyncio" if i % 2 == 0 else "trio"}


def _get(tag: bytes) -> bytes:
    return b"GET /" + tag + b" HTTP/1.1\r\nHost: example.test\r\nx-tag: " + tag + b"\r\n\r\n"


def run(tape: Tape, params: dict) -> Outcome:
    case = params.get("case")
    if case is not None:
        tape = Tape(values=[])
    world = World(tape, params["worker"])
    sim = world.sim
    host = AppHost(sim, world.worker)
    world.app = host
    cfg = world.config
    out = Outcome()
    # a second bind: every listening socket stops accepting at shutdown, not only one of them
    second = world.add_listener() if (case is None and tape.chance(1, 4, "cfg.second_listener")) else None
    G = tape.choice([1.0, 0.5, 3.0], "cfg.graceful")
    S = tape.choice([2.0, 0.5, 5.0], "cfg.shutdown")
    cfg.graceful_timeout = G
    cfg.shutdown_timeout = S
    cfg.keep_alive_timeout = 30.0
    if case is not None:
        kinds = list(case["kinds"])
        source = case["source"]
        life = "fast"
    else:
        n = 1 + tape.draw(6, "nconn")
        kinds = [KINDS[tape.draw(len(KINDS), "conn.kind")] for _ in range(n)]
        source = ["callable", "max_requests"][tape.weighted([3, 1], "trigger.source")]
        life = ["fast", "slow", "hang", "linger"][tape.weighted([4, 2, 1, 2], "lifespan.shutdown")]
    if case is None and tape.chance(1, 6, "cfg.graceful.zero") and all(
            k in ("idle", "partial-head", "long", "stuck", "h2-idle", "h2-stuck", "ws-open") for k in kinds):
        # no grace period at all: whatever is in progress is cancelled at once (only with connection kinds
        # that have nothing "finishing inside the grace period")
        G = 0.0
        cfg.graceful_timeout = G
        sim.probe("c15.graceful_timeout_zero")
    t_trigger = 1.0
    short_d = G / 2
    long_d = G + 1.0
    if life == "slow":
        host.lifespan_program = [("call", _lifespan(S / 2))]
    elif life == "hang":
        host.lifespan_program = [("call", _lifespan(None))]
    elif life == "linger":
        # answers the shutdown and goes on waiting for messages instead of returning
        host.lifespan_program = [("call", _lifespan(0.0, linger=True))]
    conns: List[Dict[str, Any]] = []
    n_requests = 0
    for ci, kind in enumerate(kinds):
        tag = b"k%d" % ci
        entry: Dict[str, Any] = {"kind": kind, "tag": tag}
        start = t_trigger - 0.3 - 0.01 * ci
        if kind == "pipelined":
            # two requests sent back to back; the first is still being served when shutdown begins, the second
            # is a new request and must not be taken on
            tag2 = tag + b"x"
            entry["tag2"] = tag2
            host.programs[tag] = [("recv_all",), ("pause", ("sleep", 0.3 + short_d)), ("respond", 200, [], [b"done-" + tag])]
            host.programs[tag2] = [("recv_all",), ("respond", 200, [], [b"second"])]
            parser = h1peer.ResponseParser()
            parser.expect(b"GET")
            parser.expect(b"GET")
            s = Script(world, [("send", _get(tag) + _get(tag2)), ("wait", lambda sc: False, 30.0)], parser)
            s.start_at(start)
            entry["script"] = s
            n_requests += 1
        elif kind in ("idle", "partial-head", "short", "long", "stuck"):
            parser = h1peer.ResponseParser()
            steps: List[tuple] = []
            if kind == "idle":
                # one completed request, then idle at the trigger
                parser.expect(b"GET")
                steps = [("send", _get(tag)), ("wait", responses_at_least(1), 5.0), ("wait", lambda sc: False, 30.0)]
                n_requests += 1
            elif kind == "partial-head":
                steps = [("send", _get(tag)[:20]), ("wait", lambda sc: False, 30.0)]
            else:
                d = {"short": short_d, "long": long_d}.get(kind)
                host.programs[tag] = [("recv_all",), ("hang",)] if d is None else \
                    [("recv_all",), ("pause", ("sleep", 0.3 + d)), ("respond", 200, [], [b"done-" + tag])]
                parser.expect(b"GET")
                steps = [("send", _get(tag)), ("wait", responses_at_least(1), 40.0), ("wait", lambda sc: False, 30.0)]
                n_requests += 1
            s = Script(world, steps, parser)
            s.start_at(start)
            entry["script"] = s
        elif kind.startswith("h2"):
            peer = H2Peer()
            peer.clock = lambda: sim.now
            sid = peer.new_stream()
            sid2 = peer.new_stream() if kind == "h2-two-short" else None
            late_sid = peer.new_stream()
            entry.update(peer=peer, sid=sid, late_sid=late_sid)
            if kind == "h2-idle":
                host.programs[tag] = [("recv_all",), ("respond", 200, [], [b"ok"])]
            elif kind in ("h2-short", "h2-two-short"):
                host.programs[tag] = [("recv_all",), ("pause", ("sleep", 0.3 + short_d)), ("respond", 200, [], [b"done-" + tag])]
                if kind == "h2-two-short":
                    # a sibling stream that finishes first, also inside the grace period
                    tag2 = tag + b"x"
                    entry.update(sid2=sid2, tag2=tag2)
                    host.programs[tag2] = [("recv_all",), ("pause", ("sleep", 0.3 + short_d / 2)),
                                           ("respond", 200, [], [b"done-" + tag2])]
                    n_requests += 1
            else:
                host.programs[tag] = [("recv_all",), ("hang",)]
            n_requests += 1

            def open_stream(sc: Script, peer: H2Peer = peer, sid: int = sid, tag: bytes = tag) -> None:
                sc.conn.client.send(peer.headers(sid, [(b":method", b"GET"), (b":scheme", b"http"),
                                                       (b":authority", b"example.test"), (b":path", b"/" + tag),
                                                       (b"x-tag", tag)], end_stream=True))

            def open_second(sc: Script, peer: H2Peer = peer, entry: Dict[str, Any] = entry) -> None:
                if "sid2" in entry:
                    t2 = entry["tag2"]
                    sc.conn.client.send(peer.headers(entry["sid2"], [(b":method", b"GET"), (b":scheme", b"http"),
                                                                     (b":authority", b"example.test"),
                                                                     (b":path", b"/" + t2), (b"x-tag", t2)],
                                                     end_stream=True))

            def late_stream(sc: Script, peer: H2Peer = peer, sid: int = late_sid, tag: bytes = tag) -> None:
                if sc.ended:
                    return
                t = tag + b"late"
                sc.conn.client.send(peer.headers(sid, [(b":method", b"GET"), (b":scheme", b"http"),
                                                       (b":authority", b"example.test"), (b":path", b"/" + t),
                                                       (b"x-tag", t)], end_stream=True))

            steps = [("send", peer.preface()), ("call", open_stream), ("call", open_second),
                     ("call", lambda sc, f=late_stream: sim.at(t_trigger + 0.05, f, sc)),
                     ("wait", lambda sc: False, 40.0)]
            s = Script(world, steps, peer)
            s.start_at(start)
            entry["script"] = s
        else:
            sess = WSSession("h1", tag)
            from ..wsgen import app_ws_echo

            host.programs[tag] = [("call", app_ws_echo())]
            ops = [("frames", wsp.frame(wsp.OP_TEXT, b"hi")), ("wait", lambda sc: False, 40.0)]
            s = build_ws_script(world, tape, sess, b"/" + tag, ops, None)
            s.start_at(start)
            entry.update(script=s, sess=sess)
            n_requests += 1
        conns.append(entry)
    # a connection attempt after the trigger must not be served
    late_parser = h1peer.ResponseParser()
    late_parser.expect(b"GET")
    late = Script(world, [("send", _get(b"lateconn")), ("wait", responses_at_least(1), 5.0)], late_parser)
    late.start_at(t_trigger + 0.2)
    if source == "max_requests":
        # the worker recycles itself: the trigger is the request that exceeds max_requests
        cfg.max_requests = n_requests
        cfg.max_requests_jitter = 0
        trig_parser = h1peer.ResponseParser()
        trig_parser.expect(b"GET")
        host.programs[b"trig"] = [("recv_all",), ("respond", 200, [], [b"trig"])]
        trig = Script(world, [("send", _get(b"trig")), ("wait", responses_at_least(1), 5.0)], trig_parser)
        trig.start_at(t_trigger - 0.001)
        end_at = 60.0
    else:
        trig = None
        end_at = t_trigger
    world.deadline = 300.0
    world.run(end_at=end_at)
    host.drain_leftovers()
    out.sample = {"worker": world.worker, "kinds": kinds, "source": source, "G": G, "S": S, "lifespan": life}
    _check(world, host, conns, late, trig, G, S, life, source, t_trigger, out)
    return finish_outcome(world, out)


def _lifespan(shutdown_delay: Optional[float], linger: bool = False) -> Any:
    async def prog(host: Any, inst: Any, receive: Any, send: Any) -> None:
        while True:
            m = await host._recv(inst, receive)
            if m["type"] == "lifespan.startup":
                await host._send(inst, send, {"type": "lifespan.startup.complete"})
            elif m["type"] == "lifespan.shutdown":
                if shutdown_delay is None:
                    await host._hang()
                await host._sleep(shutdown_delay)
                await host._send(inst, send, {"type": "lifespan.shutdown.complete"})
                if not linger:
                    return

    return prog


def _check(world: World, host: AppHost, conns: List[Dict[str, Any]], late: Script, trig: Optional[Script], G: float,
           S: float, life: str, source: str, t_trigger: float, out: Outcome) -> None:
    def bad(rule: str, msg: str, **key: Any) -> None:
        out.violations.append(Violation(rule, msg, dict(key, worker=world.worker, source=source)))

    sim = world.sim
    # when did shutdown begin?  callable: the trigger; max_requests: the instant the extra request was taken
    if source == "callable":
        t0 = world.trigger_at
    else:
        t0 = next((i.start_time for i in host.instances if i.tag == b"trig"), None)
        if t0 is None:
            bad("trigger", "the request exceeding max_requests was never taken")
            return
    # 1. bounded return
    bound = t0 + G + S + SLACK
    if world.result not in ("returned", "raised"):
        bad("bounded-return", f"worker_serve did not return (ended by {world.result}); shutdown began at {t0:.3f}, "
            f"bound {bound:.3f}", life=life)
    elif world.returned_at is not None and world.returned_at > bound:
        bad("bounded-return", f"worker_serve returned at {world.returned_at:.3f}, later than trigger {t0:.3f} + "
            f"graceful {G} + shutdown {S} + {SLACK}", life=life)
    if world.result == "raised" and life != "hang":
        bad("clean-return", f"worker_serve raised {world.exception!r}", life=life)
    if world.result == "raised" and life == "hang" and "LifespanTimeoutError" not in repr(world.exception):
        bad("clean-return", f"worker_serve raised {world.exception!r} (expected only the lifespan shutdown timeout)")
    # 2. listeners closed promptly, later connection attempts not served
    lc = world.listener.closed_at
    if lc is None or lc > t0 + DELTA:
        bad("listener-closed", f"listener closed at {lc}, shutdown began at {t0:.3f}")
    second = world.extra_listeners[0] if world.extra_listeners else None
    if second is not None:
        world.sim.probe("c15.second_listener")
        lc2 = second.closed_at
        if lc2 is None or lc2 > t0 + DELTA:
            bad("listener-closed", f"second listener closed at {lc2}, shutdown began at {t0:.3f}", which="second")
    if any(i.tag == b"lateconn" for i in host.instances) or late.parser.responses:
        bad("late-connection-served", "a connection made after the trigger was served")
    # 3. lifespan shutdown ran exactly once and not before the drain
    ls = host.lifespan
    shutdown_msgs = [e for e in (ls.received if ls else []) if e[2].get("type") == "lifespan.shutdown"]
    if len(shutdown_msgs) != 1:
        bad("lifespan-shutdown", f"{len(shutdown_msgs)} lifespan.shutdown messages delivered")
    handler_ends = [h[1] for h in world.handlers.values()]
    if shutdown_msgs:
        t_ls = shutdown_msgs[0][1]
        drained = all(e is not None and e <= t_ls + 1e-9 for e in handler_ends)
        if not drained and t_ls < t0 + G - 1e-6:
            bad("lifespan-shutdown", f"lifespan.shutdown delivered at {t_ls:.3f} before the connections drained and "
                f"before trigger + graceful_timeout ({t0 + G:.3f})")
    # 4. per connection
    for entry in conns:
        kind, tag = entry["kind"], entry["tag"]
        script: Script = entry["script"]
        conn = script.conn
        if conn is None or conn.accepted_at is None:
            continue
        closed = conn.client.server_closed_at
        key = dict(kind=kind)
        if kind in ("idle", "partial-head", "h2-idle"):
            if closed is None or closed > t0 + DELTA + conn.s2c_latency:
                bad("idle-closed", f"{kind} connection closed at {closed}, shutdown began at {t0:.3f}", **key)
        if kind == "pipelined":
            rs = script.parser.responses
            if not rs or rs[0].status != 200 or bytes(rs[0].body) != b"done-" + tag:
                bad("in-grace-delivered", "pipelined: the request in progress when shutdown began was not delivered "
                    "in full", **key)
            second = next((i for i in host.instances if i.tag == entry["tag2"]), None)
            if second is not None and second.start_time > t0 + 1e-9:
                bad("late-request-served", f"pipelined: a request waiting behind the one in progress was taken on at "
                    f"{second.start_time:.3f}, after shutdown had begun ({t0:.3f})", **key)
        if kind in ("short", "h2-short", "h2-two-short"):
            # finishing inside the grace period: delivered in full
            if kind == "short":
                rs = script.parser.responses
                ok = bool(rs) and rs[0].status == 200 and bytes(rs[0].body) == b"done-" + tag
            else:
                st = entry["peer"].streams.get(entry["sid"])
                ok = st is not None and st.complete and bytes(st.data) == b"done-" + tag
                if ok and "sid2" in entry:
                    st2 = entry["peer"].streams.get(entry["sid2"])
                    ok = st2 is not None and st2.complete and bytes(st2.data) == b"done-" + entry["tag2"]
            if not ok:
                bad("in-grace-delivered", f"{kind} request finishing inside the grace period was not delivered in full",
                    **key)
            # once its last request is done the connection has nothing in progress: closed at once
            inst = next((i for i in host.instances if i.tag == tag), None)
            h = world.handlers.get(conn.id)
            if inst is not None and inst.end_time is not None and inst.end == "returned":
                if h is None or h[1] is None or h[1] > inst.end_time + DELTA:
                    bad("drained-closed", f"{kind}: request finished at {inst.end_time:.3f} during shutdown but the "
                        f"connection handler ended at {h[1] if h else None}", **key)
        if kind in ("long", "stuck", "h2-stuck", "ws-open"):
            h = world.handlers.get(conn.id)
            limit = t0 + G + DELTA
            if h is None or h[1] is None or h[1] > limit:
                bad("cancelled-at-grace", f"{kind} connection handler ended at {h[1] if h else None}, expected by "
                    f"trigger + graceful_timeout = {t0 + G:.3f}", **key)
            if h is not None and h[1] is not None and h[1] < t0 + G - DELTA and kind != "ws-open":
                inst = next((i for i in host.instances if i.tag == tag), None)
                if inst is not None and inst.end == "cancelled":
                    bad("cancelled-early", f"{kind} request cancelled at {h[1]:.3f}, before the grace period "
                        f"({t0 + G:.3f}) ran out", **key)
        if kind.startswith("h2"):
            peer: H2Peer = entry["peer"]
            if peer.goaway is None and conn.client.server_closed_at is not None and kind in ("h2-short", "h2-two-short"):
                # a connection that drains inside the grace period is told to go away before it is closed;
                # one that is cut down by the forced cancel has no chance to say anything
                bad("goaway", f"{kind}: connection ended without GOAWAY", **key)
            late = peer.streams.get(entry["late_sid"])
            if late is not None and late.status is not None and late.status < 500:
                bad("late-stream-served", f"{kind}: a stream opened after the trigger was answered {late.status}", **key)
            late_tag = tag + b"late"
            if any(i.tag == late_tag for i in host.instances):
                bad("late-stream-served", f"{kind}: a stream opened after the trigger reached the application", **key)
