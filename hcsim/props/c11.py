"""C11 - WebSocket handshake validation and lifecycle mapping."""
from __future__ import annotations

from typing import Any, Callable, Dict, List, Optional, Tuple

from ..apps import AppHost, Instance
from ..core import Tape
from ..peers import ws as wsp
from ..runner import Outcome, Violation, finish_outcome
from ..wsgen import WSSession, build_ws_script
from ..world import World

ID = "C11"

UPGRADES = [b"websocket", b"WebSocket"]
CONNECTIONS = [b"Upgrade", b"keep-alive, Upgrade", b"upgrade"]
VERSIONS = [b"13", b"12", None]
METHODS = [b"POST", b"PUT", b"DELETE", b"OPTIONS"]


def _matrix() -> List[dict]:
    cases = []
    for worker in ("asyncio", "trio"):
        for up in range(len(UPGRADES)):
            for co in range(len(CONNECTIONS)):
                for ve in range(len(VERSIONS)):
                    for key in (True, False):
                        for hv in (b"1.1", b"1.0"):
                            for decision in ("accept", "close"):
                                cases.append({"worker": worker, "case": {
                                    "carrier": "h1", "upgrade": up, "connection": co, "version": ve, "key": key,
                                    "http": hv.decode(), "decision": decision}})
        for ve in range(len(VERSIONS)):
            for decision in ("accept", "close"):
                cases.append({"worker": worker, "case": {"carrier": "h2", "version": ve, "decision": decision}})
        for method in METHODS:
            cases.append({"worker": worker, "case": {"carrier": "h1", "upgrade": 0, "connection": 0, "version": 0,
                                                     "key": True, "http": "1.1", "decision": "accept",
                                                     "method": method.decode()}})
    return cases


def plan(tier: str) -> dict:
    return {
        "runs": 25000 if tier == "quick" else 1000000,
        "budget": 150 if tier == "quick" else 900,
        "cases": _matrix(),
        "chunk": 40,
        "rule": "WebSocket handshakes over HTTP/1.x upgrade and HTTP/2 extended CONNECT (header case/token/version/key "
        "variations, subprotocol and extension offers) x application decisions (accept with/without offered or "
        "unoffered subprotocol and extra/forbidden headers, close, denial response with body chunks, crash) x closing "
        "orders (client close with/without code, application close, simultaneous, TCP loss); judged against a "
        "decision table with an independently computed accept token.",
        "enumerated": ["upgrade{2} x connection{3} x version{13,12,none} x key{yes,no} x http{1.1,1.0} x "
                       "decision{accept,close} x 2 workers on HTTP/1; version{3} x decision{2} x 2 workers on HTTP/2"],
    }


def random_params(i: int, tier: str) -> dict:
    return {"worker": "asyncio" if i % 2 == 0 else "trio"}


def _decision_program(decision: Dict[str, Any]) -> Callable:
    async def prog(host: Any, inst: Any, receive: Callable, send: Callable) -> None:
        m = await host._recv(inst, receive)
        if m["type"] != "websocket.connect":
            inst.notes.append(f"first message {m['type']}")
            return
        kind = decision["kind"]
        if kind == "crash":
            raise RuntimeError("app crash before decision")
        if kind == "accept":
            msg: Dict[str, Any] = {"type": "websocket.accept"}
            if decision.get("subprotocol") is not None:
                msg["subprotocol"] = decision["subprotocol"]
            if decision.get("headers") is not None:
                msg["headers"] = decision["headers"]
            error = await host._send(inst, send, msg)
            if error is not None:
                inst.notes.append("accept-raised:" + type(error).__name__)
                raise error
            for kind2, value in decision.get("first", []):
                out = {"type": "websocket.send", "text": value} if kind2 == "text" else {"type": "websocket.send", "bytes": value}
                await host._send(inst, send, out)
            if decision.get("close_now") is not None:
                await host._send(inst, send, {"type": "websocket.close", "code": decision["close_now"]})
        elif kind == "close":
            await host._send(inst, send, {"type": "websocket.close"})
        elif kind == "http":
            start = {"type": "websocket.http.response.start", "status": decision["status"],
                     "headers": decision["resp_headers"]}
            error = await host._send(inst, send, start)
            if error is not None:
                raise error
            chunks = decision["chunks"]
            for i, chunk in enumerate(chunks):
                await host._send(inst, send, {"type": "websocket.http.response.body", "body": chunk,
                                              "more_body": i < len(chunks) - 1})
        # wait for the end
        while True:
            m = await host._recv(inst, receive)
            if m["type"] == "websocket.disconnect":
                return
            if m["type"] == "websocket.receive" and decision.get("close_on_message") is not None:
                await host._send(inst, send, {"type": "websocket.close", "code": decision["close_on_message"]})

    return prog


def run(tape: Tape, params: dict) -> Outcome:
    case = params.get("case")
    if case is not None:
        tape = Tape(values=[])
    world = World(tape, params["worker"])
    host = AppHost(world.sim, world.worker)
    world.app = host
    out = Outcome()
    sess_over: Dict[str, Any] = {}
    offered: List[bytes] = []
    offer_deflate = False
    closing = "client"
    client_code: Optional[int] = 1000
    if case is not None:
        carrier = case["carrier"]
        decision: Dict[str, Any] = {"kind": case["decision"]}
        if carrier == "h1":
            sess_over = {"upgrade": UPGRADES[case["upgrade"]], "connection": CONNECTIONS[case["connection"]],
                         "version": VERSIONS[case["version"]], "omit_key": not case["key"],
                         "http_version": case["http"].encode()}
            valid = VERSIONS[case["version"]] == b"13" and case["key"] and case["http"] == "1.1"
            if case.get("method"):
                sess_over["method"] = case["method"].encode()
                valid = "non-get"
        else:
            sess_over = {"version": VERSIONS[case["version"]]}
            valid = VERSIONS[case["version"]] == b"13"
        seg = 0
    else:
        carrier = ["h1", "h2"][tape.weighted([3, 2], "ws.carrier")]
        seg = [0, 1, 2][tape.weighted([3, 3, 1], "conn.seg")]
        valid = True
        if tape.chance(1, 4, "hs.invalid"):
            if carrier == "h1":
                which = tape.draw(4, "hs.which")
                if which == 0:
                    sess_over["version"] = tape.choice([b"12", b"8", None, b"13, 12"], "hs.version")
                elif which == 1:
                    sess_over["omit_key"] = True
                elif which == 2:
                    sess_over["http_version"] = b"1.0"
                else:
                    sess_over["version"] = None
                    sess_over["omit_key"] = True
            else:
                sess_over["version"] = tape.choice([b"12", None, b"7"], "hs.version2")
            valid = False
        if carrier == "h1" and valid is True and tape.chance(1, 8, "hs.method"):
            # a complete handshake on a method other than GET is not a WebSocket upgrade
            sess_over["method"] = tape.choice(METHODS, "hs.whichmethod")
            valid = "non-get"
        if carrier == "h1":
            sess_over.setdefault("upgrade", tape.choice([b"websocket", b"WebSocket", b"WEBSOCKET"], "hs.upgrade"))
            sess_over.setdefault("connection", tape.choice([b"Upgrade", b"upgrade", b"keep-alive, Upgrade",
                                                           b"Upgrade, keep-alive"], "hs.connection"))
        if tape.chance(1, 2, "hs.subprotocols"):
            offered = [b"chat", b"superchat"][: 1 + tape.draw(2, "hs.nsub")]
        offer_deflate = tape.chance(1, 3, "hs.deflate")
        kind = ["accept", "close", "http", "crash"][tape.weighted([6, 2, 2, 1], "app.decision")]
        decision = {"kind": kind}
        if kind == "accept":
            sp = tape.weighted([4, 3, 1, 1], "app.subprotocol")
            if sp == 1 and offered:
                decision["subprotocol"] = tape.choice(offered, "app.whichsub").decode()
            elif sp == 2:
                decision["subprotocol"] = "unoffered"
            elif sp == 3 and offered:
                # subprotocol names are case-sensitive tokens: "Chat" was not offered by a client offering "chat"
                decision["subprotocol"] = tape.choice(offered, "app.whichsub").decode().capitalize()
            hk = tape.weighted([4, 3, 1, 1], "app.headers")
            if hk == 1:
                decision["headers"] = [(b"x-extra", b"1"), (b"x-more", b"two")]
            elif hk == 2:
                decision["headers"] = [(b"sec-websocket-protocol", b"chat")]
            elif hk == 3:
                decision["headers"] = [(b":status", b"200")]
            if tape.chance(1, 3, "app.first"):
                decision["first"] = [("text", "hello"), ("bytes", b"\x00\x01")]
            closing = ["client", "client-nocode", "app", "app-on-message", "tcp", "rst"][
                tape.weighted([4, 2, 3, 2, 2, 1], "closing")]
            client_code = tape.choice([1000, 1001, 3000, 4999], "closing.code")
            if closing == "app":
                decision["close_now"] = tape.choice([1000, 1001, 4000], "closing.appcode")
            elif closing == "app-on-message":
                decision["close_on_message"] = tape.choice([1000, 4001], "closing.appcode2")
        elif kind == "http":
            decision["status"] = tape.choice([200, 401, 403, 404, 503], "http.status")
            decision["resp_headers"] = [(b"x-denied", b"yes")] if tape.chance(1, 2, "http.hdr") else []
            decision["chunks"] = [[b"no"], [b"a", b"", b"bc"], [b""]][tape.draw(3, "http.chunks")]
    host.programs[b"w0"] = [("call", _decision_program(decision))]
    sess = WSSession(carrier, b"w0")

    def setup(conn: Any) -> None:
        conn.seg_mode = seg

    unoffered = decision.get("subprotocol") is not None and decision["subprotocol"].encode() not in offered
    accept_expected = valid is True and decision["kind"] == "accept" and not unoffered \
        and not (decision.get("headers") and decision["headers"][0][0] in (b"sec-websocket-protocol", b":status"))
    ops: List[tuple] = []
    if accept_expected:
        nfirst = len(decision.get("first", []))
        if nfirst:
            ops.append(("wait", lambda sc: sess.ws is not None and len(sess.ws.messages) >= nfirst, 10.0))
        if closing == "client":
            ops.append(("close", client_code, b"bye"))
            ops.append(("wait", lambda sc: sess.ws is not None and sess.ws.close is not None, 10.0))
        elif closing == "client-nocode":
            ops.append(("close", None))
            ops.append(("wait", lambda sc: sess.ws is not None and sess.ws.close is not None, 10.0))
        elif closing == "app":
            ops.append(("wait", lambda sc: sess.ws is not None and sess.ws.close is not None, 10.0))
            ops.append(("close", decision["close_now"], b""))
        elif closing == "app-on-message":
            ops.append(("frames", wsp.frame(wsp.OP_TEXT, b"please close")))
            ops.append(("wait", lambda sc: sess.ws is not None and sess.ws.close is not None, 10.0))
            ops.append(("close", decision["close_on_message"], b""))
        elif closing == "tcp":
            ops.append(("sleep", 0.01))
            ops.append(("tcpclose",))
        else:
            ops.append(("sleep", 0.01))
            ops.append(("rst",))
        ops.append(("sleep", 0.05))
    ops.append(("wait", lambda sc: sc.ended, 8.0))
    ops.append(("tcpclose",))
    script = build_ws_script(world, tape, sess, b"/chat?x=1", ops, setup, subprotocols=offered or None,
                             offer_deflate=offer_deflate, handshake_over=sess_over)
    script.start_at(0.1)
    world.config.keep_alive_timeout = 3.0
    world.run(end_at=60.0)
    host.drain_leftovers()
    out.sample = {"worker": world.worker, "carrier": carrier, "valid": valid,
                  "handshake": {k: (v.decode() if isinstance(v, bytes) else v) for k, v in sess_over.items()},
                  "offered": [o.decode() for o in offered], "deflate": offer_deflate,
                  "decision": {k: (repr(v) if not isinstance(v, (str, int, type(None))) else v) for k, v in decision.items()},
                  "closing": closing if accept_expected else None, "client_code": client_code, "case": case}
    _check(world, host, sess, valid, decision, offered, accept_expected, closing, client_code, out)
    return finish_outcome(world, out)


def _headers_of(sess: WSSession) -> List[Tuple[bytes, bytes]]:
    if sess.carrier == "h1":
        r = sess.client.response or (sess.client.http.responses[0] if sess.client.http.responses else None)
        return [(n.lower(), v) for n, v in (r.headers if r else [])]
    st = sess.peer.streams.get(1)
    return [(n.lower(), v) for n, v in (st.final_headers or [])] if st else []


def _body_of(sess: WSSession) -> bytes:
    if sess.carrier == "h1":
        r = sess.client.response or (sess.client.http.responses[0] if sess.client.http.responses else None)
        return bytes(r.body) if r else b""
    st = sess.peer.streams.get(1)
    return bytes(st.data) if st else b""


def _check(world: World, host: AppHost, sess: WSSession, valid: bool, decision: Dict[str, Any],
           offered: List[bytes], accept_expected: bool, closing: str, client_code: Optional[int],
           out: Outcome) -> None:
    def bad(rule: str, msg: str, **key: Any) -> None:
        out.violations.append(Violation(rule, msg, dict(key, worker=world.worker, carrier=sess.carrier)))

    if world.result != "returned":
        bad("internal-error", f"worker_serve ended with {world.result}: {world.exception!r}")
    errs = [r for r in world.logger.records if r[2] in ("error", "critical")]
    if errs or world.loop_exceptions:
        bad("internal-error", f"error log / loop exception: {(errs or world.loop_exceptions)[:1]}")
    status = sess.handshake_status()
    insts = [i for i in host.instances if i.tag == b"w0"]
    headers = _headers_of(sess)
    hd = {}
    for n, v in headers:
        hd.setdefault(n, []).append(v)
    if valid == "non-get":
        # "an upgrade is attempted only for ... HTTP/1.1 GET": whatever else the server does with the
        # request (it is an ordinary HTTP request), it must not switch protocols or start a websocket scope
        if status == 101 or any(i.type == "websocket" for i in insts):
            bad("upgrade-only-get", f"a non-GET request carrying a complete handshake "
                f"was answered {status} with instances {[i.type for i in insts]}")
        return
    if not valid:
        if status != 400:
            bad("invalid-400", f"invalid handshake answered {status}, expected 400")
        if insts:
            bad("invalid-no-app", f"application started ({insts[0].type}) for an invalid handshake")
        return
    if len(insts) != 1 or insts[0].type != "websocket":
        bad("one-instance", f"{len(insts)} instances for a valid handshake: {[i.type for i in insts]}")
        return
    inst = insts[0]
    delivered = inst.all_delivered()
    if not delivered or delivered[0].get("type") != "websocket.connect":
        bad("connect-first", f"first message is {delivered[0].get('type') if delivered else None}")
    kind = decision["kind"]
    want_ok = 101 if sess.carrier == "h1" else 200
    if kind == "accept" and accept_expected:
        if status != want_ok:
            bad("accept-status", f"accept rendered as {status}, expected {want_ok}")
            return
        if sess.carrier == "h1":
            token = hd.get(b"sec-websocket-accept", [None])[0]
            if token != wsp.accept_token(sess.key):
                bad("accept-token", f"sec-websocket-accept {token!r} != RFC 6455 token for the key")
            if [v.lower() for v in hd.get(b"upgrade", [])] != [b"websocket"]:
                bad("accept-headers", f"upgrade header {hd.get(b'upgrade')}")
            if not any(b"upgrade" in v.lower() for v in hd.get(b"connection", [])):
                bad("accept-headers", f"connection header {hd.get(b'connection')}")
        sub = decision.get("subprotocol")
        got_sub = hd.get(b"sec-websocket-protocol", [])
        if sub is None and got_sub:
            bad("subprotocol", f"subprotocol {got_sub} sent although the application chose none")
        if sub is not None and got_sub != [sub.encode()]:
            bad("subprotocol", f"subprotocol header {got_sub} != application's choice {sub!r}")
        for n, v in decision.get("headers") or []:
            if v not in hd.get(n.lower(), []):
                bad("accept-headers", f"extra header {n!r}: {v!r} missing from the accept response")
        # lifecycle: the disconnect code tells what happened
        discs = [m for m in delivered if m.get("type") == "websocket.disconnect"]
        if len(discs) != 1:
            bad("disconnect-once", f"{len(discs)} websocket.disconnect messages")
        else:
            code = discs[0].get("code")
            if closing == "client":
                want = client_code
            elif closing == "client-nocode":
                want = 1005
            elif closing in ("app", "app-on-message"):
                want = 1000
            else:
                want = 1006
            if code != want:
                bad("disconnect-code", f"websocket.disconnect code {code}, expected {want} after closing order "
                    f"{closing!r}", closing=closing)
        if closing in ("app", "app-on-message") and sess.ws is not None:
            want_code = decision.get("close_now") or decision.get("close_on_message")
            if sess.ws.close is None or sess.ws.close[0] != want_code:
                bad("app-close-code", f"client saw close {sess.ws.close}, application closed with {want_code}")
        for want_msg, got_msg in zip(decision.get("first", []), (sess.ws.messages if sess.ws else [])):
            if got_msg.as_tuple() != want_msg:
                bad("first-messages", "messages sent right after accept differ at the client")
    elif kind == "accept":
        # an invalid decision (unoffered subprotocol, forbidden header) must raise into the application
        accept_sends = [e for e in inst.sends if e[2].get("type") == "websocket.accept"]
        if accept_sends and not str(accept_sends[0][3]).startswith("raised"):
            bad("invalid-decision-raises", f"invalid websocket.accept ({decision}) did not raise into the application "
                f"(outcome {accept_sends[0][3]}, client status {status})")
        if status is not None and status in (101,) or (sess.carrier == "h2" and status == 200):
            bad("invalid-decision-raises", f"invalid accept decision produced an accept response ({status})")
    elif kind == "close":
        if status != 403:
            bad("close-403", f"websocket.close during the handshake rendered as {status}, expected 403")
    elif kind == "http":
        if status != decision["status"]:
            bad("denial-response", f"denial response status {status}, application sent {decision['status']}")
        for n, v in decision["resp_headers"]:
            if v not in hd.get(n.lower(), []):
                bad("denial-response", f"denial response header {n!r} missing")
        body = b"".join(decision["chunks"])
        if _body_of(sess) != body:
            bad("denial-response", f"denial response body {_body_of(sess)!r} != {body!r}")
    elif kind == "crash":
        if status != 500:
            bad("crash-500", f"application crash before the decision rendered as {status}, expected 500")
