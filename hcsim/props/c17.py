"""C17 - the WSGI adapter conforms to PEP 3333."""
from __future__ import annotations

import sys
import threading
from typing import Any, Callable, Dict, List, Optional, Tuple
from urllib.parse import unquote_to_bytes

from ..core import Tape
from ..peers import h1 as h1peer
from ..peers import ws as wsp
from ..peers.h2 import H2Peer
from ..runner import Outcome, Violation, finish_outcome
from ..scen import Script, responses_at_least
from ..world import World

ID = "C17"
SHAPES = ["list", "generator-eager", "generator-lazy", "iterator-close", "iterator-close-lazy", "raise-before-start",
          "raise-after-start", "raise-mid-iteration", "empty-chunks", "no-start", "no-start-closeable", "empty-iterable",
          "iterable-close", "exc-info-replace"]
PATHS = [b"/", b"/a/b", b"/caf%C3%A9", b"/%E2%82%AC/x%20y", b"/a%2Fb", b"/api", b"/api/v1/items", b"/api/caf%C3%A9",
         b"/apix", b"/other"]
ROOTS = ["", "/api", "/api/v1"]


class Call:
    def __init__(self) -> None:
        self.environ: Dict[str, Any] = {}
        self.input: bytes = b""
        self.thread: Optional[int] = None
        self.closes = 0
        self.has_close = False
        self.status: Optional[str] = None
        self.headers: List[Tuple[str, str]] = []
        self.chunks: List[bytes] = []
        self.iterated = 0
        self.finished_iteration = False


class WSGIApp:
    """Dispatches on the x-tag header; every call is recorded."""

    def __init__(self) -> None:
        self.specs: Dict[str, Dict[str, Any]] = {}
        self.calls: Dict[str, List[Call]] = {}

    def __call__(self, environ: dict, start_response: Callable) -> Any:
        tag = environ.get("HTTP_X_TAG", "?")
        spec = self.specs.get(tag, {"shape": "list", "status": "200 OK", "headers": [], "chunks": [b"ok"]})
        call = Call()
        self.calls.setdefault(tag, []).append(call)
        call.thread = threading.get_ident()
        call.environ = {k: v for k, v in environ.items() if k not in ("wsgi.input", "wsgi.errors")}
        try:
            call.input = environ["wsgi.input"].read()
        except Exception as error:  # pragma: no cover
            call.input = repr(error).encode()
        shape = spec["shape"]
        status, headers, chunks = spec["status"], list(spec["headers"]), list(spec["chunks"])
        call.status, call.headers, call.chunks = status, headers, chunks

        def gen(lazy: bool, fail_at: Optional[int] = None) -> Any:
            if lazy:
                start_response(status, headers)
            for i, c in enumerate(chunks):
                if fail_at is not None and i == fail_at:
                    raise RuntimeError("wsgi app failed in mid-iteration")
                call.iterated += 1
                yield c
            if fail_at is not None and fail_at >= len(chunks):
                raise RuntimeError("wsgi app failed at the end of the iteration")
            call.finished_iteration = True

        class Closing:
            def __init__(self, it: Any) -> None:
                self.it = it
                call.has_close = True

            def __iter__(self) -> Any:
                return self

            def __next__(self) -> bytes:
                return next(self.it)

            def close(self) -> None:
                call.closes += 1

        class Container:
            """An iterable (not an iterator): __iter__ hands out a different object; close() is the container's."""

            def __init__(self) -> None:
                call.has_close = True

            def __iter__(self) -> Any:
                return gen(False)

            def close(self) -> None:
                call.closes += 1

        if shape == "iterable-close":
            start_response(status, headers)
            return Container()
        if shape == "exc-info-replace":
            # PEP 3333: start_response may be called again with exc_info while no headers have been output yet
            # (i.e. before the first chunk is produced); the stored status and headers are replaced
            start_response(status, headers)

            def replacing() -> Any:
                try:
                    raise ValueError("application error handled by the application")
                except ValueError:
                    start_response(spec["status2"], list(spec["headers2"]), sys.exc_info())
                yield from gen(False)

            return replacing()
        if shape == "list":
            start_response(status, headers)
            call.finished_iteration = True
            return list(chunks)
        if shape in ("generator-eager", "empty-chunks"):
            start_response(status, headers)
            return gen(False)
        if shape == "generator-lazy":
            return gen(True)
        if shape == "iterator-close":
            start_response(status, headers)
            return Closing(gen(False))
        if shape == "iterator-close-lazy":
            return Closing(gen(True))
        if shape == "raise-before-start":
            raise RuntimeError("wsgi app failed before start_response")
        if shape == "raise-after-start":
            start_response(status, headers)
            raise RuntimeError("wsgi app failed after start_response")
        if shape == "raise-mid-iteration":
            start_response(status, headers)
            return Closing(gen(False, fail_at=spec.get("fail_at", 1)))
        if shape == "no-start":
            return list(chunks)
        if shape == "no-start-closeable":
            return Closing(iter(chunks))
        if shape == "empty-iterable":
            start_response(status, headers)
            call.finished_iteration = True
            return Closing(iter([]))
        raise AssertionError(shape)


def _cases() -> List[dict]:
    cases = []
    for worker in ("asyncio", "trio"):
        for shape in SHAPES:
            for proto in ("h1", "h2"):
                cases.append({"worker": worker, "case": {"shape": shape, "proto": proto}})
        for limit in (10, 1000):
            for delta in (-1, 0, 1):
                for framing in ("length", "chunked", "h2"):
                    cases.append({"worker": worker, "case": {"limit": limit, "delta": delta, "framing": framing}})
        for root in ROOTS:
            for pi in range(len(PATHS)):
                cases.append({"worker": worker, "case": {"root": root, "path": pi}})
        cases.append({"worker": worker, "case": {"websocket": "h1"}})
        cases.append({"worker": worker, "case": {"websocket": "h2"}})
    return cases


def plan(tier: str) -> dict:
    return {
        "runs": 20000 if tier == "quick" else 1000000,
        "budget": 150 if tier == "quick" else 900,
        "cases": _cases(),
        "chunk": 20,
        "rule": "WSGI applications of fourteen shapes (list, eager and lazy generators, iterators and containers with close(), start_response called again with exc_info before the first chunk, raising "
        "before / after start_response / in mid-iteration, empty chunks, empty iterable, never calling "
        "start_response) run in real threads that hold a baton with the event loop (tape-drawn virtual delays at every "
        "thread/loop hand-over); requests over HTTP/1.1 and HTTP/2 with escaped and UTF-8 paths, root_path prefixes "
        "that match or not, repeated headers, content headers and bodies around wsgi_max_body_size; client stalls and "
        "client loss while the iterable is being consumed; WebSocket requests.  environ is compared with an "
        "independent PEP 3333 construction, the response with what the application produced, close() counts in "
        "every outcome.",
        "enumerated": ["application shape x protocol x worker", "body size {limit-1, limit, limit+1} x framing x worker",
                       "root_path x path x worker", "WebSocket request on both carriers"],
        "assumptions": ["a path outside root_path is answered by the adapter itself (404) and is only checked for not "
                        "reaching the application twice or crashing"],
    }


def random_params(i: int, tier: str) -> dict:
    return {"worker": "asyncio" if i % 2 == 0 else "trio"}


def _expected_environ(method: bytes, target: bytes, headers: List[Tuple[bytes, bytes]], body: bytes, root: str,
                      proto: str) -> Optional[Dict[str, str]]:
    raw_path, _, query = target.partition(b"?")
    path_bytes = unquote_to_bytes(raw_path)
    root_bytes = root.encode("utf8")
    if not path_bytes.startswith(root_bytes):
        return None
    rest = path_bytes[len(root_bytes):] or b"/"
    env = {
        "REQUEST_METHOD": method.decode(),
        "SCRIPT_NAME": root_bytes.decode("latin1"),
        "PATH_INFO": rest.decode("latin1"),
        "QUERY_STRING": query.decode("ascii"),
        "SERVER_PROTOCOL": "HTTP/1.1" if proto == "h1" else "HTTP/2",
        "wsgi.url_scheme": "http",
    }
    for n, v in headers:
        name = n.decode("latin1").lower()
        value = v.decode("latin1")
        if name == "content-length":
            key = "CONTENT_LENGTH"
        elif name == "content-type":
            key = "CONTENT_TYPE"
        else:
            key = "HTTP_" + name.upper().replace("-", "_")
        env[key] = env[key] + "," + value if key in env else value
    return env


def run(tape: Tape, params: dict) -> Outcome:
    case = params.get("case")
    if case is not None:
        tape = Tape(values=[])
    world = World(tape, params["worker"])
    sim = world.sim
    out = Outcome()
    from hypercorn.app_wrappers import WSGIWrapper

    app = WSGIApp()
    limit = (case or {}).get("limit") or tape.choice([16 * 1024 * 1024, 10, 1000, 70000], "cfg.limit")
    world.app_wrapper = WSGIWrapper(app, limit)
    world.use_threads = True
    world.thread_delays = lambda: tape.choice([0.0, 0.0, 0.001, 0.05], "thread.delay")
    root = (case or {}).get("root") if (case and "root" in case) else tape.choice(ROOTS, "cfg.root")
    world.config.root_path = root
    world.config.keep_alive_timeout = 3.0
    proto = (case or {}).get("proto") or ("h2" if (case or {}).get("framing") == "h2" else None)
    if proto is None:
        proto = "h1" if case is not None else ["h1", "h2"][tape.weighted([3, 2], "proto")]
    loop_thread = threading.get_ident()
    info: Dict[str, Any] = {"worker": world.worker, "proto": proto, "root": root, "limit": limit, "case": case}
    reqs: List[Dict[str, Any]] = []
    ws_case = (case or {}).get("websocket")
    nreq = 1 if case is not None else 1 + tape.draw(3, "nreq")
    for k in range(nreq):
        tag = "t%d" % k
        shape = (case or {}).get("shape") or (SHAPES[tape.draw(len(SHAPES), "app.shape")] if case is None else "list")
        status = tape.choice(["200 OK", "201 Created", "404 Not Found", "500 Oops", "299 Custom Reason Phrase"], "app.status")
        nchunks = tape.draw(5, "app.nchunks") if case is None else 2
        chunks = []
        for i in range(nchunks):
            ck = tape.draw(4, "app.chunkkind")
            chunks.append([b"chunk-%d;" % i, b"", b"x" * (1 + tape.draw(3000, "app.chunklen")), b"\x00\xff"][ck])
        if shape == "empty-chunks":
            chunks = [b"", b"a", b"", b"", b"b", b""]
        if case is not None and shape != "empty-chunks":
            chunks = [b"hello ", b"world"]
        hdrs = [("Content-Type", "text/plain"), ("X-App", "1")][: tape.draw(3, "app.nhdr") if case is None else 2]
        if tape.chance(1, 3, "app.replhdr"):
            hdrs += [("Set-Cookie", "a=1"), ("Set-Cookie", "b=2")]
        spec = {"shape": shape, "status": status, "headers": hdrs, "chunks": chunks,
                "fail_at": tape.draw(len(chunks) + 1, "app.failat")}
        if shape == "exc-info-replace":
            spec["status2"] = tape.choice(["500 Replaced By Application", "503 Busy", "200 OK"], "app.status2")
            spec["headers2"] = [("X-Replaced", "yes")] + hdrs[:1]
        app.specs[tag] = spec
        method = tape.choice([b"GET", b"POST", b"PUT", b"DELETE"], "req.method")
        if case is not None and "path" in case:
            target = PATHS[case["path"]]
        elif case is not None:
            target = (root.encode() or b"") + b"/x"
        else:
            target = PATHS[tape.draw(len(PATHS), "req.path")]
            if tape.chance(1, 2, "req.prefix"):
                target = root.encode() + target
        if tape.chance(1, 2, "req.query"):
            target += b"?" + tape.choice([b"a=1&b=%20", b"", b"x"], "req.qs")
        body = b""
        if case is not None and "delta" in case:
            method = b"POST"
            body = bytes((i * 7) & 0xFF for i in range(limit + case["delta"]))
        elif method in (b"POST", b"PUT") and case is None:
            size = tape.choice([0, 1, 50, limit - 1, limit, limit + 1, 3000], "req.bodysize")
            size = max(0, min(size, 100000))
            body = bytes((i * 11) & 0xFF for i in range(size))
        extra: List[Tuple[bytes, bytes]] = [(b"x-tag", tag.encode())]
        if tape.chance(1, 2, "req.rephdr"):
            extra += [(b"x-rep", b"one"), (b"X-Rep", b"two"), (b"accept", b"*/*")]
        if tape.chance(1, 3, "req.ctype") or body:
            extra.append((b"content-type", b"application/octet-stream"))
        framing = (case or {}).get("framing") or ("length" if tape.chance(2, 3, "req.framing") else "chunked")
        reqs.append({"tag": tag, "method": method, "target": target, "body": body, "extra": extra, "framing": framing,
                     "spec": spec})
    info["reqs"] = [{"tag": r["tag"], "method": r["method"].decode(), "target": r["target"].decode("latin1"),
                     "body": len(r["body"]), "shape": r["spec"]["shape"], "framing": r["framing"]} for r in reqs]
    fault = None if case is not None else tape.choice([None, None, "stall", "loss"], "client.fault")
    info["fault"] = fault
    sess = None
    if ws_case:
        from ..wsgen import WSSession, build_ws_script

        sess = WSSession(ws_case, b"t0")
        script = build_ws_script(world, tape, sess, b"/ws", [("wait", lambda sc: sc.ended, 2.0), ("tcpclose",)], None,
                                 wait_accept=2.0)
        script.start_at(0.1)
    elif proto == "h1":
        parser = h1peer.ResponseParser()
        steps: List[tuple] = []
        for i, r in enumerate(reqs):
            hdrs_b = [(b"Host", b"example.test")] + r["extra"]
            if r["body"] or r["method"] in (b"POST", b"PUT"):
                if r["framing"] == "chunked":
                    wire = h1peer.build_request(r["method"], r["target"], hdrs_b + [(b"Transfer-Encoding", b"chunked")],
                                                r["body"], chunks=[max(1, len(r["body"]) // 3 + 1)] * 4)
                    r["sent_headers"] = hdrs_b + [(b"Transfer-Encoding", b"chunked")]
                else:
                    cl = (b"Content-Length", b"%d" % len(r["body"]))
                    wire = h1peer.build_request(r["method"], r["target"], hdrs_b + [cl], r["body"])
                    r["sent_headers"] = hdrs_b + [cl]
            else:
                wire = h1peer.build_request(r["method"], r["target"], hdrs_b)
                r["sent_headers"] = hdrs_b
            parser.expect(r["method"])
            if fault == "stall" and i == 0:
                steps.append(("stall",))
            steps.append(("send", wire))
            if fault == "stall" and i == 0:
                steps += [("sleep", 0.5), ("resume",)]
            if fault == "loss" and i == len(reqs) - 1:
                steps += [("sleep", tape.choice([0.0005, 0.002, 0.06], "loss.at")), ("close",)]
                break
            steps.append(("wait", (lambda n: lambda sc: sc.ended or len(parser.responses) >= n)(i + 1), 5.0))
            steps.append(("sleep", 0.01))
        steps.append(("wait", lambda sc: sc.ended, 1.0))
        script = Script(world, steps, parser)
        script.start_at(0.1)
    else:
        peer = H2Peer()
        steps = [("send", peer.preface())]
        for i, r in enumerate(reqs):
            sid = peer.new_stream()
            r["sid"] = sid
            hdrs_b = [(b":method", r["method"]), (b":scheme", b"http"), (b":authority", b"example.test"),
                      (b":path", r["target"])] + [(n.lower(), v) for n, v in r["extra"]]
            r["sent_headers"] = [(b"host", b"example.test")] + [(n.lower(), v) for n, v in r["extra"]]
            has_body = bool(r["body"]) or r["method"] in (b"POST", b"PUT")

            def open_req(sc: Script, sid: int = sid, hdrs_b: list = hdrs_b, body: bytes = r["body"],
                         has_body: bool = has_body) -> None:
                if sc.ended:
                    return
                sc.conn.client.send(peer.headers(sid, hdrs_b, end_stream=not has_body))
                if has_body:
                    peer.queue_upload(sid, body, True)

            steps.append(("call", open_req))
            if fault == "loss" and i == len(reqs) - 1:
                steps += [("sleep", tape.choice([0.0005, 0.002, 0.06], "loss.at")), ("close",)]
                break
            steps.append(("wait", (lambda sid: lambda sc: sc.ended or peer.stream_done(sid))(sid), 5.0))
            steps.append(("sleep", 0.01))
        steps.append(("wait", lambda sc: sc.ended, 1.0))
        script = Script(world, steps, peer)
        script.start_at(0.1)
    world.run(end_at=20.0)
    out.sample = info
    _check(world, app, reqs, script, proto, root, limit, fault, loop_thread, sess, out)
    return finish_outcome(world, out)


def _check(world: World, app: WSGIApp, reqs: List[Dict[str, Any]], script: Script, proto: str, root: str, limit: int,
           fault: Optional[str], loop_thread: int, sess: Any, out: Outcome) -> None:
    def bad(rule: str, msg: str, **key: Any) -> None:
        out.violations.append(Violation(rule, msg, dict(key, worker=world.worker, proto=proto)))

    if world.result != "returned":
        bad("server-survives", f"worker_serve ended with {world.result}: {world.exception!r}")
    if world.loop_exceptions:
        bad("server-survives", f"event-loop exception handler called: {world.loop_exceptions[:1]}")
    if sess is not None:
        status = sess.handshake_status()
        if app.calls:
            bad("websocket-refused", "the WSGI application was called for a WebSocket request")
        if status in (101, 200) or (sess.ws is not None and sess.carrier == "h1" and status == 101):
            bad("websocket-refused", f"a WebSocket request to a WSGI application was accepted ({status})")
        elif status is None:
            bad("websocket-refused", "a WebSocket request to a WSGI application got no answer at all")
        return
    lost = fault == "loss"
    for idx, r in enumerate(reqs):
        tag, spec = r["tag"], r["spec"]
        shape = spec["shape"]
        calls = app.calls.get(tag, [])
        key = dict(shape=shape)
        last_lost = lost and idx == len(reqs) - 1
        # the client's view
        if proto == "h1":
            resp = script.parser.responses[idx] if idx < len(script.parser.responses) else None
            if resp is None and idx == len(script.parser.responses) and script.parser.current is not None:
                resp = script.parser.current  # a response that was started but never completed
            if resp is None and not calls and idx > 0:
                break  # an earlier response closed the connection: this request was never made
            status = resp.status if resp else None
            rheaders = [(n.lower(), v) for n, v in resp.headers] if resp else []
            rbody = bytes(resp.body) if resp else b""
            complete = bool(resp and resp.complete)
        else:
            st = script.parser.streams.get(r.get("sid"))
            status = st.status if st else None
            rheaders = [(n.lower(), v) for n, v in (st.final_headers or [])][1:] if st and st.final_headers else []
            rbody = bytes(st.data) if st else b""
            complete = bool(st and st.complete)
        expect_env = _expected_environ(r["method"], r["target"], r["sent_headers"], r["body"], root, proto)
        over = len(r["body"]) > limit
        if over:
            world.sim.probe("c17.over_limit")
            if calls:
                bad("over-limit-not-called", f"{tag}: body of {len(r['body'])} bytes (limit {limit}) but the "
                    f"application was called", **key)
            if not last_lost and status != 400:
                bad("over-limit-400", f"{tag}: body of {len(r['body'])} bytes (limit {limit}) answered {status}", **key)
            continue
        if expect_env is None:
            if len(calls) > 0:
                bad("outside-root-called", f"{tag}: path {r['target']!r} is outside root_path {root!r} but the "
                    f"application was called", **key)
            continue
        if last_lost and not calls:
            continue  # the request never completed before the client went away
        if len(calls) != 1:
            bad("called-once", f"{tag}: the application was called {len(calls)} times", **key)
            if not calls:
                continue
        call = calls[0]
        if call.thread == loop_thread:
            bad("off-loop", f"{tag}: the application ran on the event-loop thread", **key)
        # ---- environ
        for name, want in expect_env.items():
            got = call.environ.get(name)
            if got != want:
                bad("environ", f"{tag}: environ[{name!r}] is {got!r}, PEP 3333 construction gives {want!r} "
                    f"(target {r['target']!r}, root_path {root!r})", name=name if not name.startswith("HTTP_") else "HTTP_*")
        extra_http = [k for k in call.environ if k.startswith("HTTP_") and k not in expect_env]
        if extra_http:
            bad("environ", f"{tag}: unexpected variables {extra_http}", name="extra")
        if call.input != r["body"]:
            bad("wsgi-input", f"{tag}: wsgi.input holds {len(call.input)} bytes, the request body has {len(r['body'])}",
                **key)
        # ---- close() exactly once
        if call.has_close and call.closes != 1:
            bad("close-once", f"{tag}: close() of the returned iterable was called {call.closes} times "
                f"(shape {shape})", **key)
        # ---- response
        if last_lost:
            continue
        want_status = int(spec["status"].split(" ", 1)[0])
        if shape in ("raise-before-start", "no-start", "no-start-closeable"):
            if status != 500:
                bad("error-500", f"{tag}: application {shape} answered {status}, expected 500", **key)
            continue
        if shape == "raise-after-start" or (shape == "raise-mid-iteration" and spec["fail_at"] == 0):
            # nothing was sent yet when the application failed: a 500 (never the application's own status as a
            # complete response)
            if status == want_status and complete and want_status != 500:
                bad("error-500", f"{tag}: application failed after start_response but the client received a "
                    f"complete {status}", **key)
            elif status != 500:
                # PEP 3333: start_response only stores the status and headers, they are transmitted with the first
                # chunk; an application that fails before producing one has had nothing sent on its behalf
                bad("error-500", f"{tag}: application failed after start_response and before its first chunk; nothing "
                    f"may have been transmitted on its behalf, yet the client received {status} instead of 500 "
                    f"(shape {shape})", **key)
            continue
        if shape == "exc-info-replace":
            want_status = int(spec["status2"].split(" ", 1)[0])
            spec = dict(spec, status=spec["status2"], headers=spec["headers2"])
        if status != want_status:
            bad("status", f"{tag}: client received {status}, application said {spec['status']!r} (shape {shape})", **key)
            continue
        want_h = [(n.lower().encode("latin1"), v.encode("latin1")) for n, v in spec["headers"]]
        if rheaders[: len(want_h)] != want_h:
            bad("headers", f"{tag}: response headers {rheaders[:len(want_h) + 1]} do not start with the application's "
                f"{want_h}", **key)
        want_body = b"".join(spec["chunks"]) if shape != "empty-iterable" else b""
        if shape == "raise-mid-iteration":
            fail_at = spec["fail_at"]
            sent = b"".join(spec["chunks"][:fail_at])
            if not rbody.startswith(sent[: len(rbody)]) or len(rbody) > len(sent):
                bad("body", f"{tag}: body received before the failure is not a prefix of what was yielded", **key)
            if complete and r["method"] != b"HEAD" and (len(sent) != len(want_body) or fail_at <= len(spec["chunks"])):
                # a failed iteration must not look like a complete response (C05); only flagged when the
                # framing could show it
                declared = any(n == b"content-length" for n, _ in rheaders)
                if proto == "h2" or not declared:
                    bad("falsely-complete", f"{tag}: iteration failed after {fail_at} chunks but the response "
                        f"looks complete", **key)
            continue
        if rbody != want_body:
            bad("body", f"{tag}: client received {len(rbody)} body bytes, the application produced "
                f"{len(want_body)} (shape {shape})", **key)
        if not complete:
            bad("body", f"{tag}: response not completed (shape {shape})", **key)
