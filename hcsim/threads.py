"""Baton-passing worker threads: code that hypercorn hands to a thread pool (WSGI applications) runs in a real
thread, but only while the event-loop thread is parked, and the other way round - so the interleaving of thread
and loop is decided by the simulator (tape-drawn virtual delays at every hand-over), not by the OS scheduler.

Seams (no change to hypercorn): SimLoop.run_in_executor (executor_hook), asyncio.run_coroutine_threadsafe,
trio.to_thread.run_sync and trio.from_thread.run."""
from __future__ import annotations

import threading
from typing import Any, Callable, Dict, List, Optional, Tuple

HANDOVER_TIMEOUT = 20.0


class BatonError(Exception):
    pass


class Job:
    def __init__(self, world: Any, func: Callable, args: tuple) -> None:
        self.world = world
        self.func = func
        self.args = args
        self.to_thread = threading.Semaphore(0)
        self.to_loop = threading.Semaphore(0)
        self.msg: Optional[Tuple[str, Any]] = None
        self.value: Any = None
        self.thread = threading.Thread(target=self._main, daemon=True)
        self.started = False
        self.finished = False
        self.ident: Optional[int] = None

    def _main(self) -> None:
        if not self.to_thread.acquire(timeout=HANDOVER_TIMEOUT):
            return
        self.ident = threading.get_ident()
        self.world.thread_jobs[self.ident] = self
        try:
            result = self.func(*self.args)
            self.msg = ("done", result)
        except BaseException as error:  # handed to the loop side
            self.msg = ("raise", error)
        finally:
            self.finished = True
            self.world.thread_jobs.pop(self.ident, None)
            self.to_loop.release()

    # -- loop side ---------------------------------------------------------------------------
    def resume(self, value: Any) -> Tuple[str, Any]:
        """Run the thread until it parks in a call-back or finishes; the calling (loop) thread waits."""
        self.value = value
        if not self.started:
            self.started = True
            self.thread.start()
        self.to_thread.release()
        if not self.to_loop.acquire(timeout=HANDOVER_TIMEOUT):
            raise BatonError("worker thread did not hand the baton back")
        assert self.msg is not None
        return self.msg

    def abandon(self) -> None:
        """Loop side is going away (cancelled): let the thread run to its end with failing call-backs."""
        for _ in range(10000):
            if self.finished or not self.started:
                return
            self.resume(("err", ConnectionError("connection handler is gone")))

    # -- thread side -------------------------------------------------------------------------
    def park(self, msg: Tuple[str, Any]) -> Any:
        self.msg = msg
        self.to_loop.release()
        if not self.to_thread.acquire(timeout=HANDOVER_TIMEOUT):
            raise BatonError("loop did not hand the baton back")
        kind, payload = self.value
        if kind == "err":
            raise payload
        return payload


class _ThreadFuture:
    """What the patched asyncio.run_coroutine_threadsafe returns inside a baton thread."""

    def __init__(self, job: Job, coro: Any) -> None:
        self.job = job
        self.coro = coro

    def result(self, timeout: Optional[float] = None) -> Any:
        return self.job.park(("call-coro", self.coro))


def install_asyncio(world: Any, loop: Any) -> Callable[[], None]:
    import asyncio

    delays = world.thread_delays

    async def baton_run(func: Callable, args: tuple) -> Any:
        job = Job(world, func, args)
        world.sim.rec("thread.start")
        value: Any = ("ok", None)
        try:
            d = delays()
            if d:
                await asyncio.sleep(d)
            while True:
                kind, payload = job.resume(value)
                if kind == "done":
                    world.sim.rec("thread.done")
                    return payload
                if kind == "raise":
                    world.sim.rec("thread.raised", type(payload).__name__)
                    raise payload
                d = delays()
                if d:
                    await asyncio.sleep(d)
                try:
                    value = ("ok", await payload)
                except BaseException as error:
                    if isinstance(error, asyncio.CancelledError):
                        raise
                    value = ("err", error)
        finally:
            if not job.finished:
                world.sim.probe("thread.abandoned")
                job.abandon()

    def hook(loop_: Any, func: Callable, *args: Any) -> Any:
        return loop_.create_task(baton_run(func, args))

    loop.executor_hook = hook
    real = asyncio.run_coroutine_threadsafe

    def run_coroutine_threadsafe(coro: Any, loop_: Any) -> Any:
        job = world.thread_jobs.get(threading.get_ident())
        if job is None:
            return real(coro, loop_)
        return _ThreadFuture(job, coro)

    asyncio.run_coroutine_threadsafe = run_coroutine_threadsafe

    def undo() -> None:
        asyncio.run_coroutine_threadsafe = real

    return undo


def install_trio(world: Any) -> Callable[[], None]:
    import trio

    delays = world.thread_delays
    real_run_sync = trio.to_thread.run_sync
    real_from_thread_run = trio.from_thread.run

    async def run_sync(func: Callable, *args: Any, **kwargs: Any) -> Any:
        job = Job(world, func, args)
        world.sim.rec("thread.start")
        value: Any = ("ok", None)
        try:
            d = delays()
            if d:
                await trio.sleep(d)
            while True:
                kind, payload = job.resume(value)
                if kind == "done":
                    world.sim.rec("thread.done")
                    return payload
                if kind == "raise":
                    world.sim.rec("thread.raised", type(payload).__name__)
                    raise payload
                afn, aargs = payload
                d = delays()
                if d:
                    await trio.sleep(d)
                try:
                    value = ("ok", await afn(*aargs))
                except trio.Cancelled:
                    raise
                except BaseException as error:
                    value = ("err", error)
        finally:
            if not job.finished:
                world.sim.probe("thread.abandoned")
                job.abandon()

    def from_thread_run(afn: Callable, *args: Any, **kwargs: Any) -> Any:
        job = world.thread_jobs.get(threading.get_ident())
        if job is None:
            return real_from_thread_run(afn, *args, **kwargs)
        return job.park(("call-afn", (afn, args)))

    trio.to_thread.run_sync = run_sync
    trio.from_thread.run = from_thread_run

    def undo() -> None:
        trio.to_thread.run_sync = real_run_sync
        trio.from_thread.run = real_from_thread_run

    return undo
