"""Shared session generator: connections x requests x application programs x client behaviour.

Every property module draws a Session with its own option set, runs the world and then judges
the recorded history (application instances, client parsers, logger, kernel log).
"""
from __future__ import annotations

from typing import Any, Callable, Dict, List, Optional

from .apps import AppHost
from .core import Tape
from .gen import cut, gen_body, gen_chunk_sizes, split_points
from .peers import h1 as h1peer
from .peers.h2 import H2Peer
from .scen import Script, responses_at_least
from .world import World


class Req:
    def __init__(self, tag: bytes) -> None:
        self.tag = tag
        self.method = b"GET"
        self.target = b"/"
        self.version = b"1.1"
        self.headers: List[tuple] = []
        self.body = b""
        self.framing = "none"
        self.chunks: Optional[List[int]] = None
        self.wire = b""
        self.program: list = []
        self.resp: Dict[str, Any] = {}
        self.conn_index = 0
        self.index = 0
        self.sid: Optional[int] = None
        self.conn_close = False  # client asked to close with this request
        self.sent_complete = True
        self.wire_start = 0
        self.wire_end = 0
        self.te_trailers = False
        self.fail: Optional[tuple] = None
        self.host = b"example.test"
        self.extra: Dict[str, Any] = {}


class ConnPlan:
    def __init__(self, index: int, proto: str) -> None:
        self.index = index
        self.proto = proto
        self.reqs: List[Req] = []
        self.script: Optional[Script] = None
        self.parser: Any = None
        self.peer: Optional[H2Peer] = None
        self.pipelined = False
        self.fault: Optional[tuple] = None
        self.notes: Dict[str, Any] = {}

    @property
    def conn(self):
        return self.script.conn if self.script is not None else None


class Session:
    def __init__(self, world: World, host: AppHost) -> None:
        self.world = world
        self.host = host
        self.conns: List[ConnPlan] = []
        self.sample: Dict[str, Any] = {}

    def all_reqs(self) -> List[Req]:
        return [r for c in self.conns for r in c.reqs]


DEFAULTS: Dict[str, Any] = dict(
    protos=[5, 4],  # weights h1, h2
    max_conns=2,
    max_reqs=3,
    bodies=True,
    big=False,
    seg=True,
    pipeline=0,  # chance in /8 that an h1 connection pipelines
    versions=True,  # allow HTTP/1.0
    conn_headers=False,  # Connection: close / keep-alive variations
    head=True,
    read_modes=[6, 1, 1],  # app reads: all, none, one message
    respond_when=[6, 2],  # after reading, before reading
    statuses=[200, 200, 201, 202, 203, 204, 205, 206, 226, 300, 301, 304, 400, 404, 418, 500, 503, 599],
    resp_headers=True,
    chunk_modes=True,
    big_resp=False,
    trailers=False,
    early_hints=False,
    app_pace=True,
    stall=0,  # chance /8 that the client stalls reading for a while
    h2_windows=False,  # vary client windows / manual window updates
    latencies=[0.001, 0.0001, 0.01, 0.05],
    think=[0.0],  # pauses between sequential requests
    sndbufs=[256 * 1024, 256 * 1024, 4096, 65536],  # server-side socket send buffer
    short_send=6,  # 1-in-n chance of short writes on the server socket (0: never)
    h2_window=None,  # fixed (large) client windows: no flow-control pacing at all
    h2_padding=False,  # request bodies may be sent as padded DATA frames
)


def make_opts(**over: Any) -> Dict[str, Any]:
    opts = dict(DEFAULTS)
    opts.update(over)
    return opts


RESP_HEADER_POOL = [(b"x-app", b"1"), (b"content-type", b"text/plain"), (b"x-rep", b"a"), (b"x-rep", b"b"),
                    (b"X-Mixed", b"Case"), (b"x-empty", b""), (b"cache-control", b"no-store"),
                    (b"set-cookie", b"a=1"), (b"set-cookie", b"b=2")]


def gen_response(tape: Tape, opts: Dict[str, Any], method: bytes, h2: bool) -> Dict[str, Any]:
    status = tape.choice(opts["statuses"], "resp.status")
    headers: List[tuple] = []
    if opts["resp_headers"]:
        for _ in range(tape.draw(4, "resp.nhdr")):
            n, v = tape.choice(RESP_HEADER_POOL, "resp.hdr")
            headers.append((n.lower() if h2 else n, v))
    chunks: List[bytes] = []
    if opts["chunk_modes"]:
        mode = tape.weighted([3, 3, 2, 2, 1 if opts["big_resp"] else 0], "resp.mode")
    else:
        mode = 1
    if mode == 0:
        chunks = []
    elif mode == 1:
        chunks = [b"hello-" + tape.choice([b"a", b"bb", b"ccc"], "resp.word")]
    elif mode == 2:
        n = 1 + tape.draw(6, "resp.nchunks")
        for i in range(n):
            kind = tape.draw(4, "resp.chunkkind")
            chunks.append([b"", b"x", b"chunk%d;" % i, bytes([65 + i]) * (50 + tape.draw(400, "resp.chunklen"))][kind])
    elif mode == 3:
        n = 2 + tape.draw(4, "resp.nmed")
        size = 3000 + tape.draw(30000, "resp.medlen")
        chunks = [bytes((i * 31 + j) & 0xFF for j in range(size)) for i in range(n)]
    else:
        n = 3 + tape.draw(6, "resp.nbig")
        size = 20000 + tape.draw(50000, "resp.biglen")
        chunks = [bytes((i * 17 + j + (j >> 8)) & 0xFF for j in range(size)) for i in range(n)]
    total = sum(len(c) for c in chunks)
    declare = tape.chance(1, 2, "resp.declare")
    if declare:
        headers.append((b"content-length", str(total).encode()))
    resp = {"status": status, "headers": headers, "chunks": chunks, "declared": declare}
    if opts["trailers"] and tape.chance(1, 3, "resp.trailers"):
        resp["trailers"] = [(b"x-trailer", b"done")]
    if opts["early_hints"] and tape.chance(1, 5, "resp.hints"):
        resp["hints"] = [b"</style.css>; rel=preload"]
    return resp


def response_program(tape: Tape, opts: Dict[str, Any], resp: Dict[str, Any]) -> list:
    prog: list = []
    read_mode = tape.weighted(opts["read_modes"], "app.read")
    when = tape.weighted(opts["respond_when"], "app.when")
    pace = None
    if opts["app_pace"]:
        k = tape.weighted([5, 2, 2], "app.pace")
        if k == 1:
            pace = ("yield", 1 + tape.draw(3, "app.yields"))
        elif k == 2:
            pace = ("sleep", tape.choice([0.0005, 0.004, 0.03], "app.sleep"))
    read: list = []
    if read_mode == 0:
        read = [("recv_all", pace)]
    elif read_mode == 2:
        read = [("recv",)]
    send: list = []
    if resp.get("hints"):
        send.append(("send", {"type": "http.response.early_hint", "links": resp["hints"]}, "tolerate"))
    send.append(("respond", resp["status"], resp["headers"], resp["chunks"], pace, resp.get("trailers")))
    if when == 0:
        prog = read + send
    else:
        prog = send + read
    return prog


def gen_simple_request(tape: Tape, opts: Dict[str, Any], req: Req, h2: bool) -> None:
    methods = [b"GET", b"POST", b"PUT", b"DELETE"] + ([b"HEAD"] if opts["head"] else [])
    req.method = tape.choice(methods, "req.method")
    req.target = b"/" + req.tag + tape.choice([b"", b"?q=1", b"/sub"], "req.target")
    if opts["bodies"] and req.method in (b"POST", b"PUT") and tape.chance(3, 4, "req.hasbody"):
        req.body = gen_body(tape, opts["big"])
    if not h2 and opts["versions"] and tape.chance(1, 8, "req.http10"):
        req.version = b"1.0"


def build_h1_wire(tape: Tape, opts: Dict[str, Any], req: Req) -> None:
    headers = [(b"Host", req.host), (b"x-tag", req.tag)] + list(req.headers)
    if req.body or (req.method in (b"POST", b"PUT") and tape.chance(1, 2, "req.cl0")):
        if req.version == b"1.1" and tape.chance(1, 2, "req.chunked"):
            req.framing = "chunked"
            req.chunks = gen_chunk_sizes(tape, len(req.body), many=opts.get("many_chunks", False))
            headers.append((b"Transfer-Encoding", b"chunked"))
        else:
            req.framing = "length"
            headers.append((b"Content-Length", str(len(req.body)).encode()))
    if req.conn_close:
        headers.append((b"Connection", b"close"))
    elif opts["conn_headers"] and tape.chance(1, 4, "req.keepalive"):
        headers.append((b"Connection", b"keep-alive"))
        req.notes_keepalive = True  # type: ignore
    if req.te_trailers:
        headers.append((b"TE", b"trailers"))
    req.headers = headers
    req.wire = h1peer.build_request(req.method, req.target, headers, req.body, version=req.version,
                                    chunks=req.chunks)


def gen_session(tape: Tape, world: World, host: AppHost, opts: Dict[str, Any],
                customize: Optional[Callable[[Tape, "ConnPlan", Req], None]] = None) -> Session:
    """Draw a session; client scripts are created and scheduled, programs registered."""
    session = Session(world, host)
    nconn0, nconn_pos = tape.draw_count(opts["max_conns"], "nconn")
    nconn = 1 + nconn0
    sample: Dict[str, Any] = {"worker": world.worker, "conns": []}
    for ci in range(nconn):
        tape.span_begin(nconn_pos)
        proto = ["h1", "h2"][tape.weighted(opts["protos"], "conn.proto")]
        plan = ConnPlan(ci, proto)
        seg = 0
        if opts["seg"]:
            seg_mode = tape.weighted([4, 3, 1, 1], "conn.seg")
            seg = [0, 1, 2, 5 + tape.draw(200, "conn.segsize") if seg_mode == 3 else 0][seg_mode]
        lat = tape.choice(opts["latencies"], "conn.lat")
        sndbuf = tape.choice(opts["sndbufs"], "conn.sndbuf")
        short = tape.chance(1, opts["short_send"], "conn.shortsend") if opts["short_send"] else False

        def setup(conn: Any, seg: int = seg, lat: float = lat, sndbuf: int = sndbuf, short: bool = short) -> None:
            conn.seg_mode = seg
            conn.c2s_latency = lat
            conn.s2c_latency = lat
            conn.sndbuf = sndbuf
            conn.short_send = short

        nreq0, nreq_pos = tape.draw_count(opts["max_reqs"], "conn.nreq")
        nreq = 1 + nreq0
        csample: Dict[str, Any] = {"proto": proto, "seg": seg, "lat": lat, "sndbuf": sndbuf, "reqs": []}
        if proto == "h1":
            plan.pipelined = tape.chance(opts["pipeline"], 8, "conn.pipeline")
            csample["pipelined"] = plan.pipelined
        for ri in range(nreq):
            tape.span_begin(nreq_pos)
            req = Req(b"c%dr%d" % (ci, ri))
            req.conn_index, req.index = ci, ri
            gen_simple_request(tape, opts, req, proto == "h2")
            if opts["trailers"] and tape.chance(1, 2, "req.te"):
                req.te_trailers = True
            if proto == "h1" and opts["conn_headers"] and tape.chance(1, 6, "req.close"):
                req.conn_close = True
            req.resp = gen_response(tape, opts, req.method, proto == "h2")
            req.program = response_program(tape, opts, req.resp)
            if customize is not None:
                customize(tape, plan, req)
            plan.reqs.append(req)
            host.programs[req.tag] = req.program
            csample["reqs"].append({
                "tag": req.tag.decode(), "method": req.method.decode(), "version": req.version.decode(),
                "body": len(req.body), "status": req.resp["status"],
                "chunks": [len(c) for c in req.resp["chunks"]][:8], "declared": req.resp["declared"],
                "program": [s[0] for s in req.program], "close": req.conn_close, "fail": req.fail,
            })
            tape.span_end()
            if req.conn_close or (proto == "h1" and req.version == b"1.0"):
                break
        if proto == "h1":
            _build_h1_script(tape, opts, world, plan, setup, csample)
        else:
            _build_h2_script(tape, opts, world, plan, setup, csample)
        plan.script.start_at(0.1 + 0.007 * ci)
        tape.span_end()
        session.conns.append(plan)
        sample["conns"].append(csample)
    session.sample = sample
    return session


def inject_client_fault(tape: Tape, plan: "ConnPlan", kinds: List[str]) -> Optional[tuple]:
    """Insert a client-side fault (fin/rst/close) at a tape-chosen point of the script."""
    steps = plan.script.steps
    kind = tape.choice(kinds, "fault.kind")
    if kind == "none" or not steps:
        return None
    idx = tape.draw(len(steps), "fault.at")
    step = steps[idx]
    new: List[tuple] = []
    where = f"before step {idx} ({step[0]})"
    if step[0] == "send" and len(step[1]) > 1 and tape.chance(2, 3, "fault.midsend"):
        cutpos = 1 + tape.draw(len(step[1]) - 1, "fault.cut")
        new.append(("send", step[1][:cutpos]))
        where = f"after {cutpos} bytes of step {idx}"
        rest: List[tuple] = [("send", step[1][cutpos:])] + steps[idx + 1 :]
    else:
        rest = steps[idx:]
    delay = tape.choice([0.0, 0.0, 0.0005, 0.02], "fault.delay")
    if delay:
        new.append(("sleep", delay))
    new.append((kind,))
    if kind == "fin":
        # half-close: keep reading whatever the server still sends
        new.extend(s for s in rest if s[0] in ("wait", "sleep", "resume"))
    new.append(("wait", lambda sc: False, 30.0))
    plan.script.steps = steps[:idx] + new
    plan.fault = (kind, where)
    return plan.fault


def _send_in_pieces(tape: Tape, steps: list, data: bytes) -> None:
    pieces = cut(data, split_points(tape, len(data), 1 + tape.weighted([6, 2, 1], "c.pieces")))
    for pi, piece in enumerate(pieces):
        steps.append(("send", piece))
        if pi < len(pieces) - 1:
            steps.append(("sleep", tape.choice([0.0, 0.0005, 0.003, 0.02], "c.gap")))


def _build_h1_script(tape: Tape, opts: Dict[str, Any], world: World, plan: ConnPlan, setup: Callable,
                     csample: Dict[str, Any]) -> None:
    parser = h1peer.ResponseParser()
    steps: List[tuple] = []
    offset = 0
    for req in plan.reqs:
        build_h1_wire(tape, opts, req)
        req.wire_start = offset
        offset += len(req.wire)
        req.wire_end = offset
        parser.expect(req.method)
    stall = tape.chance(opts["stall"], 8, "c.stall")
    if plan.pipelined:
        blob = b"".join(r.wire for r in plan.reqs)
        if stall:
            steps.append(("stall",))
        _send_in_pieces(tape, steps, blob)
        if stall:
            steps.append(("sleep", tape.choice([0.01, 0.5, 2.0], "c.stalltime")))
            steps.append(("resume",))
        steps.append(("wait", responses_at_least(len(plan.reqs)), 60.0))
    else:
        for i, req in enumerate(plan.reqs):
            if stall and i == 0:
                steps.append(("stall",))
            _send_in_pieces(tape, steps, req.wire)
            if stall and i == 0:
                steps.append(("sleep", tape.choice([0.01, 0.5, 2.0], "c.stalltime")))
                steps.append(("resume",))
            steps.append(("wait", responses_at_least(i + 1), 60.0))
            if i < len(plan.reqs) - 1:
                think = tape.choice(opts["think"], "c.think")
                if think:
                    steps.append(("sleep", think))
    csample["stall"] = stall
    plan.parser = parser
    plan.script = Script(world, steps, parser, setup=setup, name=f"h1-{plan.index}")


def h2_request_headers(req: Req) -> List[tuple]:
    headers = [(b":method", req.method), (b":scheme", b"http"), (b":authority", req.host),
               (b":path", req.target), (b"x-tag", req.tag)]
    if req.te_trailers:
        headers.append((b"te", b"trailers"))
    return headers + [(n.lower(), v) for n, v in req.headers]


def _build_h2_script(tape: Tape, opts: Dict[str, Any], world: World, plan: ConnPlan, setup: Callable,
                     csample: Dict[str, Any]) -> None:
    window = 65535
    max_frame = 16384
    auto = True
    updates: List[tuple] = []
    if opts["h2_windows"]:
        window = tape.choice([65535, 65535, 0, 1, 100, 5000, 200000, 16 << 20], "h2.window")
        max_frame = tape.choice([16384, 16384, 32768, 65536], "h2.maxframe")
        auto = not tape.chance(1, 3, "h2.manualwin")
        if window == 16 << 20:
            # ample stream windows: only the connection window runs out, and only connection-level
            # credit is ever granted
            auto = False
    if opts.get("h2_window"):
        window = opts["h2_window"]
    peer = H2Peer(initial_window=window, max_frame=max_frame, auto_window=auto)
    plan.peer = peer
    plan.parser = peer
    plan.notes.update(window=window, max_frame=max_frame, auto=auto)
    csample.update(window=window, max_frame=max_frame, auto_window=auto)
    steps: List[tuple] = [("send", peer.preface())]
    if opts.get("h2_window"):
        steps.append(("send", peer.window_update(0, opts["h2_window"])))
    sids: List[int] = []
    concurrent = tape.chance(1, 2, "h2.concurrent")
    for req in plan.reqs:
        sid = peer.new_stream()
        req.sid = sid
        sids.append(sid)
        frame_sizes = gen_chunk_sizes(tape, len(req.body)) if req.body else []
        pad = 0
        if req.body and opts.get("h2_padding") and tape.chance(1, 5, "h2.pad"):
            # padded DATA frames: the padding counts against flow control although it carries no body.  Many small
            # frames with the largest padding, so that the padding alone exceeds a 64 KiB window
            pad = 255
            frame_sizes = [max(1, len(req.body) // 300)] * 400
            csample["padded"] = True

        def open_req(sc: Script, req: Req = req, sid: int = sid, frame_sizes: List[int] = frame_sizes,
                     pad: int = pad) -> None:
            data = peer.headers(sid, h2_request_headers(req), end_stream=not req.body)
            sc.conn.client.send(data)
            if req.body:
                peer.queue_upload(sid, req.body, True, frame_sizes, pad=pad)

        steps.append(("call", open_req))
        if not concurrent:
            steps.append(("wait", (lambda sid: lambda sc: peer.stream_done(sid))(sid), 60.0))
            think = tape.choice(opts["think"], "c.think")
            if think:
                steps.append(("sleep", think))
    if not auto or window < 65535:
        # credit schedule: the peer grants windows in steps until everything is delivered
        total = sum(sum(len(c) for c in r.resp["chunks"]) for r in plan.reqs)
        step_credit = max(tape.choice([1, 100, 4096, 70000], "h2.credit"), total // 40)
        gap = tape.choice([0.001, 0.05], "h2.creditgap")
        csample.update(credit=step_credit, creditgap=gap)
        plan.notes["credit"] = (step_credit, gap)

        def grant(sc: Script) -> None:
            if sc.ended or all(peer.stream_done(s) for s in sids):
                return
            out = b""
            if peer.conn_recv_window < step_credit:
                out += peer.window_update(0, step_credit)
            for s in sids:
                rec = peer.streams.get(s)
                if rec is not None and not peer.stream_done(s) and rec.recv_window < step_credit:
                    out += peer.window_update(s, step_credit)
            if out:
                sc.conn.client.send(out)
            sc.marks["grants"] = sc.marks.get("grants", 0) + 1
            if sc.marks["grants"] < 400:
                sc.sim.after(gap, grant, sc)

        steps.append(("call", lambda sc: sc.sim.after(gap, grant, sc)))
    steps.append(("wait", (lambda sids: lambda sc: all(peer.stream_done(x) for x in sids))(list(sids)), 120.0))
    csample["concurrent"] = concurrent
    plan.script = Script(world, steps, peer, setup=setup, name=f"h2-{plan.index}")
